"""Shared runner: environment pinning, log capture, work-unit pool, evidence,
known-findings filter, replay files.

Every check is `props/<id>.py` exposing

    LEVEL      : evidence level string
    RULE       : str, how cases are enumerated / what is distinct+nontrivial
    units(tier): list of picklable work units
    run_unit(u): dict(states=, transitions=, executions=, evaluations=,
                      distinct=[hashable...] | distinct_count=int,
                      violations=[{signature, clause, what, replay}], samples=[...],
                      caps=[...])
    replay(payload): re-executes one recorded execution, returns list of violations

The runner fans units out over a process pool, merges, applies
/verif/known_findings.json and writes /verif/evidence/<id>.json.
"""
from __future__ import annotations

import hashlib
import importlib
import json
import logging
import multiprocessing as mp
import os
import sys
import time
import traceback
from typing import Any, Dict, List

VERIF = os.path.dirname(os.path.dirname(os.path.abspath(__file__)))
REPO_SRC = "/repo/src"
GUARD = "XSTATE_STATEMACHINE_VERIF"


class Budget(KeyboardInterrupt):
    """Raised by recorder stubs / the watchdog when a run exceeds its action
    budget.  Derives from KeyboardInterrupt because asyncio's Task.__step and
    the interpreters' `except Exception` / `except BaseException` handlers
    store or swallow anything else."""


# --------------------------------------------------------------------------
# environment
# --------------------------------------------------------------------------
def pin_environment() -> None:
    """Re-exec with PYTHONHASHSEED=0 so string-set order is reproducible."""
    if os.environ.get("PYTHONHASHSEED") != "0":
        os.environ["PYTHONHASHSEED"] = "0"
        os.environ[GUARD] = "1"
        os.execv(sys.executable, [sys.executable] + sys.argv)
    os.environ.setdefault(GUARD, "1")
    if REPO_SRC not in sys.path:
        sys.path.insert(0, REPO_SRC)
    if VERIF not in sys.path:
        sys.path.insert(0, VERIF)


class LogCapture(logging.Handler):
    """Keeps WARNING+ records of the library in memory (several properties
    say 'is logged' / 'with a warning')."""

    def __init__(self) -> None:
        super().__init__(level=logging.WARNING)
        self.records: List[logging.LogRecord] = []

    def emit(self, record: logging.LogRecord) -> None:  # noqa: D401
        self.records.append(record)

    def reset(self) -> None:
        self.records.clear()

    def errors(self) -> List[str]:
        out = []
        for r in self.records:
            if r.levelno >= logging.ERROR:
                try:
                    out.append(r.getMessage())
                except Exception:
                    out.append(str(r.msg))
        return out

    def warnings(self) -> List[str]:
        out = []
        for r in self.records:
            if r.levelno == logging.WARNING:
                try:
                    out.append(r.getMessage())
                except Exception:
                    out.append(str(r.msg))
        return out


LOG = LogCapture()
_LOG_INSTALLED = False


def install_logging() -> LogCapture:
    """Silence the library below WARNING, capture the rest in memory."""
    global _LOG_INSTALLED
    if _LOG_INSTALLED:
        return LOG
    root = logging.getLogger()
    for h in list(root.handlers):
        root.removeHandler(h)
    root.addHandler(LOG)
    root.setLevel(logging.WARNING)
    lib = logging.getLogger("xstate_statemachine")
    for h in list(lib.handlers):
        lib.removeHandler(h)
    lib.setLevel(logging.WARNING)
    lib.propagate = True
    logging.getLogger("asyncio").setLevel(logging.CRITICAL)
    # exc_info formatting is expensive and never read
    logging.raiseExceptions = False
    _LOG_INSTALLED = True
    return LOG


def digest(obj: Any) -> str:
    return hashlib.sha1(
        json.dumps(obj, sort_keys=True, default=repr).encode()
    ).hexdigest()[:16]


# --------------------------------------------------------------------------
# known findings
# --------------------------------------------------------------------------
def load_known() -> Dict[str, Any]:
    path = os.path.join(VERIF, "known_findings.json")
    if not os.path.exists(path):
        return {"findings": [], "fixed": []}
    with open(path) as f:
        return json.load(f)


def known_signatures(prop: str) -> Dict[str, Dict[str, Any]]:
    return {
        f["signature"]: f
        for f in load_known().get("findings", [])
        if f.get("property") == prop
    }


# --------------------------------------------------------------------------
# worker side
# --------------------------------------------------------------------------
def _worker_init() -> None:
    pin_path()
    install_logging()
    # safety net: a library call that never returns AND keeps allocating (a runaway expansion) must not take the machine
    # down with it before the wall-clock backstop fires - a worker that passes 8 GB gets a MemoryError instead
    try:
        import resource

        lim = int(os.environ.get("VERIF_WORKER_AS_GB", "8")) << 30
        resource.setrlimit(resource.RLIMIT_AS, (lim, lim))
    except Exception:  # pragma: no cover - platform without RLIMIT_AS
        pass


def pin_path() -> None:
    if REPO_SRC not in sys.path:
        sys.path.insert(0, REPO_SRC)
    if VERIF not in sys.path:
        sys.path.insert(0, VERIF)


class Watchdog(KeyboardInterrupt):
    """Wall-clock backstop for a hung library call (reported, never 'covered')."""


def _alarm(signum, frame):
    raise Watchdog("unit exceeded its wall-clock backstop")


def _run_unit(args):
    modname, unit = args
    import signal

    try:
        mod = importlib.import_module(modname)
        t0 = time.time()
        signal.signal(signal.SIGALRM, _alarm)
        signal.alarm(int(getattr(mod, "UNIT_TIMEOUT", 900)))
        try:
            res = mod.run_unit(unit)
        finally:
            signal.alarm(0)
        res["wall"] = time.time() - t0
        return res
    except (Watchdog, MemoryError) as exc:
        # the library call under test did not come back (or ran out of memory on the way): that is an observation about
        # the code under test, not a harness failure - every unit is sized to finish in a small fraction of the backstop
        prop = modname.rsplit(".", 1)[-1].upper()
        try:
            idx = [repr(u) for u in importlib.import_module(modname).units(os.environ.get("VERIF_TIER", "quick"))].index(repr(unit))
        except Exception:  # noqa: BLE001
            idx = None
        kind = "ran-out-of-memory" if isinstance(exc, MemoryError) else "did-not-return-within-the-wall-clock-backstop"
        return dict(states=0, transitions=0, executions=1, evaluations=1, distinct_count=1, samples=[], caps=[], violations=[dict(
            signature=f"{prop}|unit-{kind}", clause=kind,
            what=f"work unit {repr(unit)[:300]} {kind} ({type(exc).__name__}: {exc}); the calls it makes into the library never finished",
            size=0, replay=dict(kind="unit-backstop", tier=os.environ.get("VERIF_TIER", "quick"), index=idx, unit=repr(unit)[:400]))])
    except BaseException as exc:  # harness error, not a violation
        return {
            "harness_error": f"{type(exc).__name__}: {exc}",
            "traceback": traceback.format_exc(),
            "unit": repr(unit)[:400],
        }


# --------------------------------------------------------------------------
# driver side
# --------------------------------------------------------------------------
def run_check(prop: str, tier: str, seed: int) -> int:
    modname = f"mc.props.{prop.lower()}"
    mod = importlib.import_module(modname)
    t0 = time.time()
    os.environ["VERIF_TIER"] = tier   # (workers name the unit of a backstop record by its index in units(tier))
    units = list(mod.units(tier))
    # VERIF_SEED only rotates the dealing order of work units.
    if units:
        k = seed % len(units)
        units = units[k:] + units[:k]
    nproc = int(os.environ.get("VERIF_PROCS", "16"))
    nproc = max(1, min(nproc, len(units) or 1))
    results: List[Dict[str, Any]] = []
    if nproc == 1:
        _worker_init()
        for u in units:
            results.append(_run_unit((modname, u)))
    else:
        ctx = mp.get_context("fork")
        chunk = max(1, len(units) // (nproc * 8))
        with ctx.Pool(nproc, initializer=_worker_init) as pool:
            for r in pool.imap_unordered(
                _run_unit, [(modname, u) for u in units], chunksize=chunk
            ):
                results.append(r)

    harness_errors = [r for r in results if "harness_error" in r]
    if harness_errors:
        for r in harness_errors[:5]:
            sys.stderr.write(
                f"HARNESS-ERROR {prop}: {r['harness_error']}\n{r['traceback']}\nunit={r['unit']}\n"
            )
        return 2

    states = sum(r.get("states", 0) for r in results)
    transitions = sum(r.get("transitions", 0) for r in results)
    executions = sum(r.get("executions", 0) for r in results)
    evaluations = sum(r.get("evaluations", 0) for r in results)
    distinct_set = set()
    distinct_count = 0
    for r in results:
        if "distinct" in r:
            distinct_set.update(r["distinct"])
        distinct_count += r.get("distinct_count", 0)
    distinct_total = len(distinct_set) + distinct_count
    caps: List[str] = []
    for r in results:
        for c in r.get("caps", []):
            if c not in caps:
                caps.append(c)
    samples: List[Any] = []
    for r in results:
        for s in r.get("samples", []):
            if len(samples) < 5:
                samples.append(s)
    extra: Dict[str, Any] = {}
    for r in results:
        for k, v in r.get("counters", {}).items():
            extra[k] = extra.get(k, 0) + v

    # ---- violations: group by signature, keep first (shortest) witness
    known = known_signatures(prop)
    by_sig: Dict[str, List[Dict[str, Any]]] = {}
    for r in results:
        for v in r.get("violations", []):
            by_sig.setdefault(v["signature"], []).append(v)
    new_sigs = [s for s in by_sig if s not in known]
    absorbed = {s: len(by_sig[s]) for s in by_sig if s in known}

    rc = 0
    replay_dir = os.path.join(VERIF, "replays", prop)
    lines: List[str] = []
    for sig in sorted(absorbed):
        lines.append(
            f"KNOWN-FINDING: property={prop} {known[sig].get('what', sig)} "
            f"[signature={sig}; {absorbed[sig]} witnesses this run]"
        )
    for sig in sorted(new_sigs):
        vs = sorted(by_sig[sig], key=lambda v: v.get("size", 0))
        v = vs[0]
        os.makedirs(replay_dir, exist_ok=True)
        payload = {
            "property": prop,
            "signature": sig,
            "clause": v.get("clause"),
            "what": v.get("what"),
            "witnesses_this_run": len(vs),
            "replay": v.get("replay"),
        }
        path = os.path.join(replay_dir, f"{digest([sig, v.get('replay')])}.json")
        with open(path, "w") as f:
            json.dump(payload, f, indent=1, sort_keys=True, default=repr)
        lines.append(f"VIOLATION property={prop} replay={path}")
        lines.append(f"  signature: {sig}")
        lines.append(f"  what: {v.get('what')}")
        rc = 1

    wall = time.time() - t0
    level = getattr(mod, "LEVEL", "model_checking")
    exhaustive = not caps
    coverage: Dict[str, Any] = {
        "evaluations": evaluations or executions or transitions,
        "distinct_nontrivial": distinct_total,
        "rule": getattr(mod, "RULE", ""),
        "samples": samples,
        "states": states,
        "transitions": transitions,
        "traces_validated_against_impl": executions,
        "work_units": len(units),
        "caps_hit": caps,
        "exhaustive": exhaustive,
        "bounds": getattr(mod, "BOUNDS", {}).get(tier, ""),
        "known_findings_absorbed": absorbed,
        "new_violation_signatures": sorted(new_sigs),
    }
    coverage.update(extra)
    if hasattr(mod, "EXPLANATION"):
        coverage["explanation"] = mod.EXPLANATION
    evidence = {
        "property_id": prop,
        "tier": tier,
        "seed": seed,
        "level": level,
        "coverage": coverage,
        "assumptions": getattr(mod, "ASSUMPTIONS", []),
        "wall_s": round(wall, 2),
        "violations": len(new_sigs),
    }
    os.makedirs(os.path.join(VERIF, "evidence"), exist_ok=True)
    with open(os.path.join(VERIF, "evidence", f"{prop}.json"), "w") as f:
        json.dump(evidence, f, indent=1, sort_keys=True, default=repr)

    for ln in lines:
        print(ln)
    print(
        f"[{prop} {tier}] units={len(units)} states={states} transitions={transitions} "
        f"executions={executions} evaluations={coverage['evaluations']} "
        f"distinct={distinct_total} known={sum(absorbed.values())} "
        f"new={len(new_sigs)} wall={wall:.1f}s exhaustive={exhaustive}"
    )
    return rc


def run_replay(prop: str, path: str) -> int:
    _worker_init()
    mod = importlib.import_module(f"mc.props.{prop.lower()}")
    with open(path) as f:
        payload = json.load(f)
    rp = payload["replay"]
    if isinstance(rp, dict) and rp.get("kind") == "unit-backstop":
        os.environ["VERIF_TIER"] = rp.get("tier", "quick")
        units = list(mod.units(rp.get("tier", "quick")))
        unit = units[rp["index"]] if rp.get("index") is not None else None
        if unit is None:
            print("cannot identify the work unit of this record")
            return 2
        r = _run_unit((f"mc.props.{prop.lower()}", unit))
        vs = [v for v in r.get("violations", []) if v["signature"] == payload["signature"]]
    else:
        vs = mod.replay(rp)
    if vs:
        for v in vs:
            print(f"REPRODUCED property={prop} signature={v['signature']}")
            print(f"  what: {v.get('what')}")
        return 1
    print(f"NOT-REPRODUCED property={prop} (execution passes on this tree)")
    return 0
