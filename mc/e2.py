"""E2 — stateless exploration of schedules (choice prefixes), deviation-bounded.

`run(ch)` executes ONE complete execution on a fresh interpreter, asking
`ch.pick(n)` at every genuine choice point (which of n tied timers fires next,
whether pending ready work runs before the next timer, ...).  Choice 0 is the
default answer; any other answer is a deviation.  `explore` enumerates every
choice sequence with at most `bound` deviations (None = all), depth-first,
replaying prefixes on fresh executions; a divergence while replaying a prefix
is a hard error.
"""
from __future__ import annotations

from typing import Any, Callable, List, Optional, Tuple


class ReplayDivergence(RuntimeError):
    pass


class Choices:
    def __init__(self, prefix: List[int]) -> None:
        self.prefix = list(prefix)
        self.taken: List[int] = []
        self.arity: List[int] = []
        self.labels: List[str] = []

    def pick(self, n: int, label: str = "") -> int:
        """Returns an index in range(n). n<=1 is not a choice point."""
        if n <= 1:
            return 0
        i = len(self.taken)
        if i < len(self.prefix):
            c = self.prefix[i]
            if c >= n:
                raise ReplayDivergence(f"choice {i}: recorded {c} but only {n} options now ({label})")
        else:
            c = 0
        self.taken.append(c)
        self.arity.append(n)
        self.labels.append(label)
        return c


def explore(
    run: Callable[[Choices], Any],
    *,
    bound: Optional[int] = None,
    max_execs: int = 200000,
    on_exec: Optional[Callable[[Choices, Any], None]] = None,
    root: Optional[List[int]] = None,
) -> Tuple[int, bool]:
    """Returns (executions, capped).  With `root`, only the subtree of executions whose choices start with that prefix
    is explored (the whole space is the default execution plus the subtrees of all its first deviations: see `roots`)."""
    stack: List[List[int]] = [list(root or [])]
    n = 0
    capped = False
    first_obs = None
    while stack:
        prefix = stack.pop()
        ch = Choices(prefix)
        out = run(ch)
        n += 1
        if n == 1 and not root:
            # determinism self-test: the default schedule replayed twice must agree
            ch2 = Choices([])
            out2 = run(ch2)
            if ch2.taken != ch.taken or ch2.arity != ch.arity or _key(out2) != _key(out):
                raise ReplayDivergence("default schedule is not reproducible: "
                                       f"{ch.taken}/{ch.arity} vs {ch2.taken}/{ch2.arity}")
        if ch.taken[: len(prefix)] != prefix[: len(ch.taken)]:
            raise ReplayDivergence(f"prefix {prefix} replayed as {ch.taken}")
        if on_exec is not None:
            on_exec(ch, out)
        if n >= max_execs:
            capped = True
            break
        base_dev = sum(1 for c in prefix if c != 0)
        for i in range(len(ch.taken) - 1, len(prefix) - 1, -1):
            for alt in range(1, ch.arity[i]):
                if bound is not None and base_dev + sum(1 for c in ch.taken[len(prefix):i] if c != 0) + 1 > bound:
                    continue
                stack.append(ch.taken[:i] + [alt])
    return n, capped


def _key(out: Any) -> Any:
    try:
        return out.get("key") if isinstance(out, dict) else out
    except Exception:
        return None


def roots(run: Callable[[Choices], Any], bound: Optional[int] = None) -> List[List[int]]:
    """Splits the exploration into independent subtrees: [] stands for the default execution alone (explore it with
    bound=0), every other entry is a first deviation of the default execution."""
    ch = Choices([])
    run(ch)
    out: List[List[int]] = []
    if bound is None or bound >= 1:
        for i in range(len(ch.taken)):
            for alt in range(1, ch.arity[i]):
                out.append(ch.taken[:i] + [alt])
    return out
