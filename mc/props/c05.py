"""C05 — sync, async and pure engines compute the same behaviour.

Differential oracle: BFS to closure on the sync engine over TREE(N) universal
machines and the FOLLOW/FEATURE families; after every step the same history is
replayed on the async engine (observed with its queue drained) and threaded
through the pure API, and configuration, context, status, output and the ordered
list of executed/reported actions with their triggering events are compared.
Purity of the pure API: no user action runs, no task/thread is created, the
machine definition and the input snapshot are unchanged.
"""
from __future__ import annotations

import asyncio
import copy
import threading
from typing import Any, Dict, List, Tuple

from .. import families as F
from .. import core
from ..core import Budget
from ..drivers import Harness
from ..e1 import bfs, build
from ..recorder import norm_ev_type
from . import follow, features

LEVEL = "model_checking"
RULE = (
    "BFS to closure on the sync engine of every TREE(N) universal machine (those holding a parallel state, up to 4 states, also with keys renamed so that document order is the reverse of id order), irregular larger trees, nested-parallel completion skeletons with an onDone on every eligible state, FOLLOW machine and FEATURE machine "
    "(assign/raise/choose/pure/enqueueActions/guards/output/sync services; self-enqueueing pure / choose / enqueueActions expansion of natural depth 3 and unbounded - cut by the expansion-depth guard); every step is replayed on the "
    "async engine and through initial_transition/transition and compared (configuration, context, status, "
    "output, ordered action list with triggering event type+payload); distinct_nontrivial = distinct canonical "
    "joint states"
)
BOUNDS = {
    "quick": "TREE(N<=4), 9 parallel + 4 irregular skeletons, FOLLOW(N<=3), FEATURE machines, 3 key-colliding machines x every target respelling; closure",
    "thorough": "TREE(N<=5), 54 parallel + 10 irregular skeletons, FOLLOW(N<=4), FEATURE machines, 6 key-colliding machines x every target respelling; closure",
}
ASSUMPTIONS = [
    "start-up pseudo events ('___xstate_statemachine_init___' / 'entry.<id>') are normalised to INIT",
    "the pure API is compared only on machines without invoke/after",
    "pure API reports ActionDefinitions without events, so only the ordered action types are compared there",
]
PAYLOAD_N = 3


def units(tier: str) -> List[Any]:
    n = 4 if tier == "quick" else 5
    # (the large units first: the pool then ends on small ones)
    us: List[Any] = [(k, t) for t in F.big_skeletons(tier) for k in (("tree-rev",) if tier == "quick" else ("tree", "tree-rev"))]
    us += [("tree", t) for t in F.trees_upto(n)] + [("tree", t) for t in F.par_skeletons(tier)]
    # the same machines with keys named so that document order is the reverse of id order (exit / entry order across
    # regions must follow the document, identically on every engine): every tree holding a parallel state
    us += [("tree-rev", t) for t in list(F.trees_upto(min(n, 4))) + F.par_skeletons(tier) if "P" in F.tree_kinds(t)]
    # completion through nested parallel / compound states with an onDone on every eligible state (the done.state
    # bubbling code exists once per engine)
    deep = ("C", (("A", ()), ("C", (("A", ()), ("F", ())))))
    us += [("done", t) for t in F.done_skeletons("thorough") if tier != "quick" or deep in t[1][0][1][0][1]]
    us += [("follow", spec) for spec in follow.specs(3 if tier == "quick" else 4)]
    us += [("feature", name) for name in features.names()]
    from . import c18

    us += [("collide", name) for name in c18.collide_machines(tier)]
    return us


def fingerprint_machine(m) -> Any:
    """Deep structural fingerprint of a MachineNode (independent walk)."""

    def tr(t):
        return (
            t.event, t.target_str, t.reenter, t.forbidden,
            repr(t.guard_def), tuple(a.type for a in t.actions),
        )

    def node(n):
        return (
            n.id, n.type, n.initial, n.history, n.target_str,
            tuple(a.type for a in n.entry), tuple(a.type for a in n.exit),
            tuple((k, tuple(tr(t) for t in v)) for k, v in n.on.items()),
            tr(n.on_done) if n.on_done else None,
            tuple((k, tuple(tr(t) for t in v)) for k, v in n.after.items()),
            tuple((i.id, i.src, tuple(tr(t) for t in i.on_done), tuple(tr(t) for t in i.on_error)) for i in n.invoke),
            tuple(node(c) for c in n.states.values()),
        )

    return node(m)


def step_actions(seg: List[tuple]) -> List[tuple]:
    """(action name, normalised event type, payload n) for marker actions and
    bare types for built-ins, in execution order."""
    out = []
    for e in seg:
        if e[0] == "A":
            out.append((e[1], norm_ev_type(e[2]), e[3]))
    return out


def step_action_types(seg: List[tuple]) -> List[str]:
    return [e[1] for e in seg if e[0] == "AX"]


def explore(cfg, nodes, events, *, label, replay, shape="", guard_impls=None, extra_actions=None,
            services=None, use_pure=True, menu_events=None, extra_markers=None):
    byid = {n.id: n for n in nodes} if nodes else {}
    res = dict(states=0, transitions=0, executions=0, distinct_count=0, violations=[], samples=[], caps=[])
    kw = dict(with_plugin=True, extra_guards=guard_impls, extra_actions=extra_actions, services=services,
              extra_markers=extra_markers)
    hs = Harness(cfg, **kw)
    ha = Harness(cfg, yielding=True, **kw)   # async markers yield to the event loop once after logging
    hp = Harness(cfg, **kw)
    viol: List[Dict[str, Any]] = []

    def flag(clause, detail, hist, ev, pair):
        sh = shape
        if ev in (events or {}):
            e = events[ev]
            tk = byid[e["tgt"]].kind if e.get("tgt") else "-"
            sh += f"|kind={e['kind']}|tgt={tk}"
        sig = f"C05|{clause}|{pair}|{sh}"
        rp = dict(replay)
        rp.update(hist=hist + ([ev] if ev is not None else []))
        viol.append(dict(signature=sig, clause=clause,
                         what=f"{pair}: {clause}: {detail}; after {hist + ([ev] if ev is not None else [])} on {label}",
                         size=len(hist) + len(cfg.get('states', {})) * 10, replay=rp))

    def send(d, ev):
        d.send(ev, n=PAYLOAD_N)

    def cut_logged():
        return any("Exceeded" in m for m in core.LOG.errors())

    def compare(ds, hist, ev, seg_s):
        """Replays hist(+ev) on async and pure and compares with sync driver ds."""
        full = hist + ([ev] if ev is not None else [])
        os_ = ds.observe()
        if cut_logged():
            # a runaway chain was cut by maxIterations in this execution: where
            # exactly each engine cuts is C13's subject, not judged here
            res.setdefault("counters", {})["executions_with_maxIterations_cut_skipped"] = (
                res.get("counters", {}).get("executions_with_maxIterations_cut_skipped", 0) + 1)
            return
        # ---------------- async
        try:
            da, _ = build(ha, "async", hist, send)
        except Budget:
            return
        try:
            mark = da.rec.mark() if ev is not None else 0
            if ev is not None:
                try:
                    send(da, ev)
                except Budget:
                    return
            oa = da.observe()
            seg_a = da.rec.since(mark)
            res["executions"] += 1
            if cut_logged():
                return
            for name, i in (("configuration", 0), ("history", 1), ("status", 2), ("context", 3), ("output", 4), ("error-flag", 5)):
                if os_[i] != oa[i]:
                    flag(name, f"sync={os_[i]} async={oa[i]}", hist, ev, "sync-vs-async")
            if step_actions(seg_s) != step_actions(seg_a):
                flag("action-trace", f"sync={step_actions(seg_s)} async={step_actions(seg_a)}", hist, ev, "sync-vs-async")
            elif step_action_types(seg_s) != step_action_types(seg_a):
                flag("action-types", f"sync={step_action_types(seg_s)} async={step_action_types(seg_a)}", hist, ev, "sync-vs-async")
        finally:
            da.close()
        # ---------------- pure
        if not use_pure:
            return
        dp = hp.driver("pure")
        m = dp.machine
        fp0 = fingerprint_machine(m)
        tasks0 = threading.active_count()
        err = dp.start()
        for e in hist:
            if err is None:
                err = dp.send(e, n=PAYLOAD_N)
        if err is None and ev is not None:
            snap_in = dp.snap
            snap_copy = (set(snap_in.state_ids), set(snap_in.configuration), copy.deepcopy(snap_in.context), snap_in.status, copy.deepcopy(snap_in.output))
            err = dp.send(ev, n=PAYLOAD_N)
            now = (set(snap_in.state_ids), set(snap_in.configuration), snap_in.context, snap_in.status, snap_in.output)
            if now != snap_copy:
                flag("pure-mutated-input-snapshot", f"before={snap_copy} after={now}", hist, ev, "pure")
        res["executions"] += 1
        if err is not None:
            flag("pure-raised", repr(err), hist, ev, "sync-vs-pure")
            return
        if any(e[0] == "A" for e in dp.rec.log):
            flag("pure-ran-user-action", f"{[e[1] for e in dp.rec.log if e[0]=='A']}", hist, ev, "pure")
        if threading.active_count() != tasks0:
            flag("pure-started-thread", f"{threading.enumerate()}", hist, ev, "pure")
        if fingerprint_machine(m) != fp0:
            flag("pure-mutated-machine", "machine fingerprint changed", hist, ev, "pure")
        op = dp.observe()
        st_s = {"running": "active"}.get(os_[2], os_[2])
        if os_[0] != op[0]:
            flag("configuration", f"sync={os_[0]} pure={op[0]}", hist, ev, "sync-vs-pure")
        if os_[3] != op[3]:
            flag("context", f"sync={os_[3]} pure={op[3]}", hist, ev, "sync-vs-pure")
        if st_s != op[2]:
            flag("status", f"sync={os_[2]} pure={op[2]}", hist, ev, "sync-vs-pure")
        if os_[4] != op[4]:
            flag("output", f"sync={os_[4]} pure={op[4]}", hist, ev, "sync-vs-pure")
        rep = [a.type for a in dp.reported]
        if rep != step_action_types(seg_s):
            flag("reported-actions", f"sync executed {step_action_types(seg_s)} pure reported {rep}", hist, ev, "sync-vs-pure")

    def on_state(d, hist):
        return True

    def on_step(d, hist, ev, mark, key_before):
        compare(d, hist, ev, d.rec.since(mark))
        return True

    def menu(d):
        o = d.observe()
        if menu_events is not None:
            return list(menu_events)
        if o[2] != "running":
            # C05 also compares what happens to events sent after completion
            return [n for n, e in list(events.items())[:1]]
        conf = set(o[0])
        return [n for n, e in events.items() if e["src"] in conf and e["kind"] in ("T", "R", "N", "S")]

    # start-up comparison
    try:
        d0, err0 = build(hs, "sync", [], send)
        if err0 is not None:
            raise AssertionError(f"{label} failed to start: {err0!r}")
        compare(d0, [], None, d0.rec.since(0))
    except Budget:
        pass
    cl = bfs(hs, "sync", menu, on_state, on_step, send=send)
    res["states"] += cl.states
    res["transitions"] += cl.transitions
    res["executions"] += cl.executions
    res["distinct_count"] += cl.states
    if cl.nonterminating:
        res.setdefault("counters", {})["steps_over_action_budget_skipped"] = len(cl.nonterminating)
    res["violations"].extend(viol)
    res["samples"].append(dict(machine=label, states_total=cl.states, transitions_total=cl.transitions))
    return res


def run_collide(name: str, only=None):
    """Key-colliding machines (C18's COLLIDE family), every transition target respelled in every equivalent spelling: the
    three engines resolve targets in duplicated code, so each respelled machine is compared across them."""
    import copy as _copy
    from . import c18

    cfg0 = c18.collide_machines("thorough")[name]
    events = sorted({ev for _, st in c18.walk_states(cfg0) for ev in (st.get("on") or {})})
    total = dict(states=0, transitions=0, executions=0, distinct_count=0, violations=[], samples=[], caps=[])
    for idx, (desc, fn) in enumerate(c18.target_rewrites(cfg0)):
        if only is not None and idx != only:
            continue
        cfg = _copy.deepcopy(cfg0)
        fn(cfg)
        r = explore(cfg, None, {}, label=f"{name} with {desc}", replay=dict(kind="collide", name=name, idx=idx),
                    shape="collide", menu_events=events)
        for k in ("states", "transitions", "executions", "distinct_count"):
            total[k] += r[k]
        total["violations"].extend(r["violations"])
    total["samples"].append(dict(machine=name, respelled_machines=len(c18.target_rewrites(cfg0)), states_total=total["states"]))
    return total


def run_unit(unit):
    kind, payload = unit
    if kind == "collide":
        return run_collide(payload)
    if kind in ("tree", "tree-rev"):
        naming = "prefix" if kind == "tree" else "reversed"
        cfg, nodes, events = F.universal_config(payload, shared=True, naming=naming)
        return explore(cfg, nodes, events, label=F.tree_str(payload) + ("" if kind == "tree" else " (keys z,y,x,...)"),
                       replay=dict(kind=kind, tree=payload), shape=kind)
    if kind == "done":
        from . import c10

        cfg, nodes, events, decorated = c10.build_cfg((payload, "all", None, False))
        marks = []
        for n in nodes:
            if n.id in decorated:
                F.cfg_node(cfg, n)["onDone"]["actions"] = [f"mk:od:{n.id}"]
                marks.append(f"mk:od:{n.id}")
        return explore(cfg, nodes, events, label=F.tree_str(payload) + "+onDone[all]", replay=dict(kind="done", tree=payload),
                       shape="done", extra_markers=marks)
    if kind == "follow":
        cfg, nodes, events = follow.build(payload)
        tree, mode, x, y = payload
        return explore(cfg, nodes, events, label=f"{F.tree_str(tree)}+{mode}({x},{y})",
                       replay=dict(kind="follow", spec=payload), shape=f"follow={mode}",
                       guard_impls={"armed": follow.armed_guard})
    feat = features.get(payload)
    return explore(feat["cfg"], None, {}, label=f"feature:{payload}", replay=dict(kind="feature", name=payload),
                   shape=f"feature={payload}", guard_impls=feat.get("guards"), extra_actions=feat.get("actions"),
                   services=feat.get("services"), use_pure=feat.get("pure", True), menu_events=feat["events"],
                   extra_markers=feat.get("markers"))


def replay(payload):
    from .c01 import _tuplify

    if payload["kind"] == "collide":
        r = run_collide(payload["name"], only=payload["idx"])
        for v in r["violations"]:
            print("  ", v["what"][:300])
        return r["violations"]
    if payload["kind"] in ("tree", "tree-rev", "done"):
        unit = (payload["kind"], _tuplify(payload["tree"]))
    elif payload["kind"] == "follow":
        unit = ("follow", _tuplify(payload["spec"]))
    else:
        unit = ("feature", payload["name"])
    res = run_unit(unit)
    want = payload["hist"]
    out = [v for v in res["violations"] if v["replay"]["hist"] == want]
    for v in out:
        print("  ", v["what"])
    return out
