"""C19 — Python-defined machines and discovered logic equal their JSON counterparts.

(A) every corpus config expressible in the Python APIs is translated mechanically
    into the functional style (State / transition / build_machine), the builder
    style (MachineBuilder) and the class style (StateMachine subclass), each in two
    variants (transitions inside State(on=...) / as separate Transition objects);
    the built machine must have the same deep fingerprint and traces as
    create_machine(config).  Same-named states at different depths included.
(B) independence of repeated builds (run one, fingerprint the other; mutate the
    dicts handed to State and rebuild).
(C) logic auto-discovery: every name shape x role x provider kind x spelling.
"""
from __future__ import annotations

import copy
import itertools
import types
from typing import Any, Dict, List, Optional, Tuple

from xstate_statemachine import (
    MachineBuilder,
    MachineLogic,
    State,
    StateMachine,
    SyncInterpreter,
    build_machine,
    create_machine,
)
from xstate_statemachine.exceptions import ImplementationMissingError, XStateMachineError

from .. import cfgtools as C
from .. import core

LEVEL = "model_checking"
RULE = (
    "(A) corpus configs (reduced to what the Python APIs can express) + SAMENAME machines x style {functional, builder, "
    "class} x variant {transitions in State(on=...), transitions as Transition objects / builder.transition() (candidate lists as several objects in order), the objects combined with | left-nested / right-nested / balanced}: deep "
    "fingerprint + trace equivalence with create_machine(config); (B) two builds from one definition: run the first to "
    "closure, the second must fingerprint like a fresh build; mutate every dict handed to State and rebuild; (C) discovery: "
    "name shapes {doIt, do_it, doIt2, do2nd, HTTPGet, x, log, assign, raise, sendTo, forwardTo, spawn_worker} x role {action, guard, service} x "
    "provider {module function, provider method, MachineLogic subclass method} x provider spelling {as referenced, other "
    "casing, both}: creation binds and the NAMED implementation runs, or creation raises ImplementationMissingError; "
    "composite guards / stateIn / built-ins / spawn_ directives never demanded; distinct_nontrivial = distinct cases"
)
BOUNDS = {"quick": "all corpus machines x 3 styles x 2 variants; discovery alphabet complete", "thorough": "same + pairwise name sets in discovery"}
ASSUMPTIONS = [
    "configs are reduced to the keys the Python APIs expose (no final-state output, description, custom state id, history default target)",
    "the same (state, event) is never declared both in State(on=...) and as a separate Transition",
    "an explicitly passed MachineLogic instance is bound lazily; for it only the camelCase-reference/snake_case-method direction must bind at creation",
]


# ------------------------------------------------------------------ expressible reduction
def reduce_cfg(cfg: Dict[str, Any]) -> Dict[str, Any]:
    cfg = copy.deepcopy(cfg)

    def rec(st, is_root):
        st.pop("description", None)
        st.pop("output", None)
        if not is_root:
            st.pop("id", None)
        if st.get("type") == "history":
            st.pop("target", None)
        for c in (st.get("states") or {}).values():
            rec(c, False)

    rec(cfg, True)
    return cfg


def samename_cfgs() -> Dict[str, Dict[str, Any]]:
    return {
        "samename": {
            "id": "sn", "initial": "A",
            "states": {
                "A": {"initial": "idle", "states": {"idle": {"on": {"GO": {"target": "busy", "actions": ["goA"]}}}, "busy": {"on": {"BACK": "idle"}}},
                      "on": {"SWITCH": "B"}},
                "B": {"initial": "idle", "states": {"idle": {"on": {"PING": {"actions": ["pingB"]}}}, "busy": {}},
                      "on": {"SWITCH": "A"}},
            },
        },
    }


def all_cfgs() -> Dict[str, Dict[str, Any]]:
    out = {}
    for k, v in C.corpus().items():
        if k == "nested":
            # custom ids are not expressible: respell '#deepTwo'
            v = copy.deepcopy(v)
            v["states"]["q"]["states"]["q1"]["on"]["J"] = "#nested.p.p2"
        out[k] = reduce_cfg(v)
    out.update(samename_cfgs())
    # candidate lists whose ORDER decides (overlapping guards, unguarded fallbacks), on several states and events
    out["candidates"] = {
        "id": "cd", "initial": "idle",
        "states": {
            "idle": {"on": {
                "SUBMIT": [{"target": "fast", "guard": "isUrgent", "actions": ["f"]}, {"target": "slow", "guard": "isValid"}, {"target": "rejected"}],
                "PING": [{"guard": "isValid", "actions": ["p1"]}, {"actions": ["p2"]}],
                "SKIP": "slow"}},
            "fast": {"on": {"BACK": "idle", "SUBMIT": [{"target": "slow", "guard": "isValid"}, {"target": "idle"}]}},
            "slow": {"on": {"BACK": "idle"}},
            "rejected": {"on": {"BACK": [{"target": "idle", "guard": "isUrgent"}, {"target": "fast"}]}},
        },
    }
    # every machine-level (root) property at once: the root State's on, always, entry and exit are merged into one config
    # by independent branches - none may overwrite another (on[""] IS the root's always)
    out["rootmix"] = {
        "id": "rm", "initial": "filling", "entry": ["f"], "exit": ["p1"],
        "on": {"ABORT": ".aborted", "PING": {"actions": ["p2"]}},
        "always": [{"target": ".full", "guard": {"type": "stateIn", "params": {"state": "#rm.armed"}}, "actions": ["f"]}],
        "states": {
            "filling": {"on": {"ARM": "armed"}},
            "armed": {},
            "full": {"on": {"BACK": "filling"}},
            "aborted": {"on": {"BACK": "filling"}},
        },
    }
    return out


# ------------------------------------------------------------------ translators
def simple_transition(t) -> Optional[Dict[str, Any]]:
    """A transition expressible as a Transition object: sibling target by bare name."""
    if isinstance(t, str):
        return {"target": t}
    if isinstance(t, dict) and set(t) <= {"target", "guard", "actions", "reenter"}:
        if isinstance(t.get("guard"), dict):
            return None
        acts = t.get("actions")
        if acts is not None and not (isinstance(acts, list) and all(isinstance(a, str) for a in acts)):
            return None
        return t
    return None


def to_state(name: str, st: Dict[str, Any], parent_initial: Optional[str], variant: str, pulled: List[tuple], siblings: Dict[str, Any]):
    kw: Dict[str, Any] = {}
    if st.get("type") == "final":
        kw["final"] = True
    elif st.get("type") == "parallel":
        kw["parallel"] = True
    elif st.get("type") == "history":
        kw["history"] = st.get("history", "shallow")
    if parent_initial == name:
        kw["initial"] = True
    on = dict(st.get("on") or {})
    always = on.pop("", None)
    if "always" in st:
        always = st["always"]
    keep_on = {}
    def pullable(simple):
        tgt = simple.get("target") if simple else None
        return simple is not None and (tgt is None or (tgt in siblings and "." not in tgt and not tgt.startswith("#")))

    for ev, tv in on.items():
        if variant != "on" and isinstance(tv, list) and tv and all(pullable(simple_transition(c)) for c in tv):
            # a candidate list becomes several Transition objects for the same (state, event), in document order
            for c in tv:
                pulled.append((name, ev, simple_transition(c)))
            continue
        simple = simple_transition(tv) if variant != "on" else None
        if pullable(simple):
            pulled.append((name, ev, simple))
        else:
            keep_on[ev] = tv
    if keep_on:
        kw["on"] = keep_on
    if always is not None:
        kw["always"] = always
    for k_src, k_dst in (("entry", "entry"), ("exit", "exit")):
        if k_src in st:
            v = st[k_src]
            kw[k_dst] = v if isinstance(v, list) else [v]
    if "after" in st:
        kw["after"] = st["after"]
    if "invoke" in st:
        kw["invoke"] = st["invoke"]
    if "onDone" in st:
        kw["on_done"] = st["onDone"]
    if "tags" in st:
        kw["tags"] = st["tags"] if isinstance(st["tags"], list) else [st["tags"]]
    if "meta" in st:
        kw["meta"] = st["meta"]
    kids = st.get("states") or {}
    child_objs = []
    child_pulled: List[tuple] = []
    for ck, cv in kids.items():
        child_objs.append(to_state(ck, cv, st.get("initial"), variant, child_pulled, kids))
    if child_objs:
        kw["states"] = [c for c, _ in child_objs]
    s = State(name, **kw)
    return s, child_pulled + []


def collect(cfg, variant):
    """Returns (top-level State objects, Transition objects, root State or None)."""
    by_obj: Dict[int, Any] = {}
    transitions = []

    def build_level(states_cfg, initial, ):
        objs = {}
        pulled: List[tuple] = []
        results = {}
        for name, st in states_cfg.items():
            kids = st.get("states") or {}
            s, _ = to_state_shallow(name, st, initial, variant, pulled, states_cfg)
            objs[name] = s
            if kids:
                child_objs, child_tr = build_level(kids, st.get("initial"))
                s.states = list(child_objs.values())
                transitions.extend(child_tr)
        trs = []
        for src, ev, t in pulled:
            tgt = t.get("target")
            if tgt is None:
                trs.append(objs[src].internal(ev, guard=t.get("guard"), actions=t.get("actions")))
            else:
                trs.append(objs[src].to(objs[tgt], event=ev, guard=t.get("guard"), actions=t.get("actions"), reenter=bool(t.get("reenter"))))
        return objs, trs

    top, trs = build_level(cfg.get("states") or {}, cfg.get("initial"))
    transitions.extend(trs)
    root_kw: Dict[str, Any] = {}
    if cfg.get("type") == "parallel":
        root_kw["parallel"] = True
    on = dict(cfg.get("on") or {})
    alw = on.pop("", None)
    if on:
        root_kw["on"] = on
    if alw is not None or "always" in cfg:
        root_kw["always"] = cfg.get("always", alw)
    for k in ("entry", "exit"):
        if k in cfg:
            root_kw[k] = cfg[k] if isinstance(cfg[k], list) else [cfg[k]]
    for k_src, k_dst in (("after", "after"), ("invoke", "invoke"), ("onDone", "on_done"), ("tags", "tags"), ("meta", "meta")):
        if k_src in cfg:
            root_kw[k_dst] = cfg[k_src]
    root = State("", **root_kw) if root_kw else None
    # the same transitions, combined with the | operator in different association shapes: the order of the candidates of one
    # (state, event) is the left-to-right order of the expression, whatever the parentheses
    if variant.startswith("pipe") and len(transitions) > 1:
        ts = list(transitions)
        if variant == "pipe-left":
            g = ts[0]
            for t in ts[1:]:
                g = g | t
        elif variant == "pipe-right":
            g = ts[-1]
            for t in reversed(ts[:-1]):
                g = t | g
        else:  # balanced
            def bal(xs):
                if len(xs) == 1:
                    return xs[0]
                mid = len(xs) // 2
                return bal(xs[:mid]) | bal(xs[mid:])
            g = bal(ts)
        transitions = [g]
    return list(top.values()), transitions, root


def to_state_shallow(name, st, parent_initial, variant, pulled, siblings):
    st2 = {k: v for k, v in st.items() if k != "states"}
    s, _ = to_state(name, st2, parent_initial, variant, pulled, siblings)
    return s, None


def named_fn(name: str, kind: str, log: List[tuple], gv: bool):
    if kind == "action":
        def f(interp, ctx, ev, ad):
            import json as _j
            log.append(("A", name, getattr(ev, "type", None), _j.dumps(ad.params, sort_keys=True, default=repr) if ad.params is not None else None))
    elif kind == "guard":
        def f(ctx, ev, params=None):
            import json as _j
            log.append(("G", name, _j.dumps(params, sort_keys=True, default=repr) if params is not None else None))
            return gv
    else:
        def f(interp, ctx, ev):
            import json as _j
            log.append(("S", name, _j.dumps(getattr(ev, "payload", None), sort_keys=True, default=repr)))
            return "r"
    f.__name__ = name
    f._xsm_name = name  # exact registration name, bypassing the snake->camel default
    return f


def build_python(cfg, style: str, variant: str, log: List[tuple], gv: bool = True):
    acts, guards, services, delays = C.referenced_names(cfg)
    a_fns = [named_fn(n, "action", log, gv) for n in sorted(acts)]
    g_fns = [named_fn(n, "guard", log, gv) for n in sorted(guards)]
    s_fns = [named_fn(n, "service", log, gv) for n in sorted(services)]
    if style == "functional":
        states, trs, root = collect(cfg, variant)
        m = build_machine(id=cfg["id"], states=states, transitions=trs, actions=a_fns, guards=g_fns, services=s_fns,
                          context=copy.deepcopy(cfg.get("context")), root=root)
    elif style == "class":
        states, trs, root = collect(cfg, variant)
        ns: Dict[str, Any] = {"machine_id": cfg["id"], "initial_context": copy.deepcopy(cfg.get("context"))}
        for s in states:
            ns[s.name] = s
        for i, t in enumerate(trs):
            ns[f"t{i}"] = t
        if root is not None:
            ns["machine_root"] = root
        from xstate_statemachine import action as deco_action, guard as deco_guard, service as deco_service

        def as_method(fn, deco, name):
            def method(self, *a):
                return fn(*a)
            method.__name__ = name if name.isidentifier() else "m_" + str(abs(hash(name)))
            return deco(name)(method)

        for fn in a_fns:
            ns["act_" + fn.__name__] = as_method(fn, deco_action, fn.__name__)
        for fn in g_fns:
            ns["grd_" + fn.__name__] = as_method(fn, deco_guard, fn.__name__)
        for fn in s_fns:
            ns["svc_" + fn.__name__] = as_method(fn, deco_service, fn.__name__)
        cls = type("M_" + cfg["id"], (StateMachine,), ns)
        m = cls.create_machine()
    else:
        b = MachineBuilder(cfg["id"])
        if cfg.get("context") is not None:
            b.context(copy.deepcopy(cfg["context"]))
        for name, st in (cfg.get("states") or {}).items():
            on = dict(st.get("on") or {})
            alw = on.pop("", None)
            if "always" in st:
                alw = st["always"]
            pulled = []
            if variant != "on":
                for ev in list(on):
                    simple = simple_transition(on[ev])
                    tgt = simple.get("target") if simple else None
                    if simple is not None and (tgt is None or (tgt in cfg["states"] and "." not in tgt)):
                        pulled.append((ev, simple))
                        del on[ev]
            b.state(name, initial=cfg.get("initial") == name, final=st.get("type") == "final",
                    on=on or None, entry=(st["entry"] if isinstance(st.get("entry"), list) else [st["entry"]]) if "entry" in st else None,
                    exit=(st["exit"] if isinstance(st.get("exit"), list) else [st["exit"]]) if "exit" in st else None,
                    after=st.get("after"), invoke=st.get("invoke"), on_done=st.get("onDone"), always=alw,
                    history=st.get("history", "shallow") if st.get("type") == "history" else None,
                    tags=(st["tags"] if isinstance(st.get("tags"), list) else [st["tags"]]) if "tags" in st else None, meta=st.get("meta"))
            if st.get("states"):
                b.child_states(name, initial=st.get("initial"), states=copy.deepcopy(st["states"]), parallel=st.get("type") == "parallel")
            elif st.get("type") == "parallel":
                b.child_states(name, parallel=True)
            for ev, t in pulled:
                b.transition(name, ev, t.get("target"), guard=t.get("guard"), actions=t.get("actions"),
                             reenter=bool(t.get("reenter")), internal=t.get("target") is None)
        rootp = {k: copy.deepcopy(cfg[k]) for k in ("on", "entry", "exit", "after", "invoke", "onDone", "tags", "meta", "type", "always") if k in cfg}
        if rootp:
            b.root(**rootp)
        for fn in a_fns:
            b.action(fn.__name__, fn)
        for fn in g_fns:
            b.guard(fn.__name__, fn)
        for fn in s_fns:
            b.service(fn.__name__, fn)
        m = b.build()
    return m


def check_translation(name, cfg, style, variant, res):
    res["evaluations"] += 1
    res["executions"] += 1
    res["distinct_count"] += 1

    def flag(clause, detail):
        res["violations"].append(dict(signature=f"C19|{clause}|{style}|{variant}", clause=clause,
                                      what=f"{style}/{variant}: {clause}: {detail}; machine {name}", size=1,
                                      replay=dict(kind="translate", machine=name, style=style, variant=variant)))

    log0: List[tuple] = []
    ref = create_machine(copy.deepcopy(cfg), logic=C.corpus_logic(cfg, log0))
    fp_ref = C.fingerprint(ref)
    try:
        log1: List[tuple] = []
        m = build_python(cfg, style, variant, log1)
    except XStateMachineError as exc:
        flag("python-definition-rejected", repr(exc))
        return
    fp = C.fingerprint(m)
    if fp != fp_ref:
        from .c18 import _first_diff
        flag("structure-differs", _first_diff(fp_ref, fp))
    diff = C.equivalent(cfg, cfg, depth=3, build_b=lambda log, gv: build_python(cfg, style, variant, log, gv))
    if diff:
        flag("behaviour-differs", diff[:300])
    # ---- (B) independence of repeated builds
    logA: List[tuple] = []
    logB: List[tuple] = []
    if style == "functional":
        states, trs, root = collect(cfg, variant)
        acts, guards, services, _ = C.referenced_names(cfg)
        mk = lambda log: dict(actions=[named_fn(n, "action", log, True) for n in sorted(acts)],  # noqa: E731
                              guards=[named_fn(n, "guard", log, True) for n in sorted(guards)],
                              services=[named_fn(n, "service", log, True) for n in sorted(services)])
        m1 = build_machine(id=cfg["id"], states=states, transitions=trs, context=copy.deepcopy(cfg.get("context")), root=root, **mk(logA))
        # run the first machine through every event twice
        from ..threads import Installed
        with Installed():
            i = SyncInterpreter(m1)
            i.start()
            for ev in C.events_of(cfg) * 2:
                try:
                    i.send(ev)
                except XStateMachineError:
                    pass
            i.stop()
        m2 = build_machine(id=cfg["id"], states=states, transitions=trs, context=copy.deepcopy(cfg.get("context")), root=root, **mk(logB))
        if C.fingerprint(m2) != fp_ref:
            from .c18 import _first_diff
            flag("second-build-differs-after-first-ran", _first_diff(fp_ref, C.fingerprint(m2)))
        # a third build from the SAME State objects but WITHOUT the Transition objects is the machine a fresh definition
        # without them denotes: nothing the earlier builds merged in may have stuck to the definition
        try:
            states_f, _, root_f = collect(cfg, variant)
            kw3 = dict(id=cfg["id"], context=copy.deepcopy(cfg.get("context")))
            m3 = build_machine(states=states, transitions=[], root=root, **kw3, **mk(logB))
            m3_ref = build_machine(states=states_f, transitions=[], root=root_f, **kw3, **mk(logB))
            if C.fingerprint(m3) != C.fingerprint(m3_ref):
                from .c18 import _first_diff
                flag("later-build-inherits-from-earlier-build", "built again without its Transition objects: " + _first_diff(C.fingerprint(m3_ref), C.fingerprint(m3)))
        except XStateMachineError:
            pass  # without its transitions the definition may be incomplete (unreachable / unresolved names): not judged
        # mutate the dicts handed to State, then the ALREADY BUILT machine must be unaffected
        before = C.fingerprint(m2)
        for s in states:
            if s.on:
                s.on["__mutated__"] = "nowhere"
            if isinstance(s.after, dict):
                s.after["99999"] = "nowhere"
        if C.fingerprint(m2) != before:
            flag("built-machine-shares-dicts-with-definition", "mutating State.on/after changed a machine built earlier")


# ------------------------------------------------------------------ (C) discovery
SHAPES = ["doIt", "do_it", "doIt2", "do2nd", "HTTPGet", "x", "log", "assign", "raise", "sendTo", "forwardTo", "spawn_worker"]


def other_casing(name: str) -> Optional[str]:
    if any(a.isupper() and b.isupper() for a, b in zip(name, name[1:])):
        return None  # acronyms have no invertible snake_case spelling
    if "_" in name:
        parts = name.split("_")
        return parts[0] + "".join(p.title() for p in parts[1:])
    out = ""
    for ch in name:
        if ch.isupper():
            out += "_" + ch.lower()
        else:
            out += ch
    out = out.lstrip("_")
    return out if out != name else None


def discovery_cfg(name: str, role: str) -> Dict[str, Any]:
    a: Dict[str, Any] = {"on": {"E": {"target": "b"}}}
    if role == "action":
        a["on"]["E"]["actions"] = [name]
    elif role == "guard":
        a["on"]["E"]["guard"] = {"type": "and", "children": [name, {"type": "not", "children": [{"type": "stateIn", "params": {"state": "#d.b"}}]}]}
    else:
        a["on"]["E"] = {"target": "c"}
    cfg = {"id": "d", "initial": "a", "states": {"a": a, "b": {}, "c": {"invoke": {"src": name, "onDone": "b"}}}}
    if role != "service":
        cfg["states"].pop("c")
    return cfg


def run_discovery(res):
    for name in SHAPES:
        for role in ("action", "guard", "service"):
            if role != "action" and name in ("log", "assign", "raise", "sendTo", "forwardTo", "spawn_worker"):
                continue
            for provider in ("module", "instance", "logic-subclass"):
                alt = other_casing(name)
                for spelling in ("same", "other", "both"):
                    if spelling != "same" and alt is None:
                        continue
                    calls: List[str] = []

                    def impl(tag, role=role):
                        if role == "action":
                            def f(interp, ctx, ev, ad):
                                calls.append(tag)
                        elif role == "guard":
                            def f(ctx, ev):
                                calls.append(tag)
                                return True
                        else:
                            def f(interp, ctx, ev):
                                calls.append(tag)
                                return 1
                        return f

                    defs = {}
                    if spelling in ("same", "both"):
                        defs[name] = impl(name)
                    if spelling in ("other", "both"):
                        defs[alt] = impl(alt)
                    for k, f in defs.items():
                        f.__name__ = k
                    cfg = discovery_cfg(name, role)
                    res["evaluations"] += 1
                    res["executions"] += 1
                    res["distinct_count"] += 1
                    case = f"name={name} role={role} provider={provider} provided={sorted(defs)}"
                    is_directive = role == "action" and (name in ("log", "assign", "raise") or name.startswith("spawn_"))
                    try:
                        if provider == "module":
                            mod = types.ModuleType("verif_logic_mod")
                            for k, f in defs.items():
                                if k.isidentifier() and k not in ("raise", "assign") or True:
                                    setattr(mod, k, f)
                                f.__module__ = "verif_logic_mod"
                            m = create_machine(cfg, logic_modules=[mod])
                        elif provider == "instance":
                            ns = {k: (lambda f: (lambda self, *a: f(*a)))(f) for k, f in defs.items()}
                            for k in ns:
                                ns[k].__name__ = k
                            P = type("Provider", (), ns)
                            m = create_machine(cfg, logic_providers=[P()])
                        else:
                            ns = {k: (lambda f: (lambda self, *a: f(*a)))(f) for k, f in defs.items()}
                            # arity decides the registry for MachineLogic subclasses: keep explicit signatures
                            if role == "action":
                                ns = {k: (lambda f: (lambda self, interp, ctx, ev, ad: f(interp, ctx, ev, ad)))(f) for k, f in defs.items()}
                            elif role == "guard":
                                ns = {k: (lambda f: (lambda self, ctx, ev: f(ctx, ev)))(f) for k, f in defs.items()}
                            else:
                                ns = {k: (lambda f: (lambda self, interp, ctx, ev: f(interp, ctx, ev)))(f) for k, f in defs.items()}
                            L = type("Logic", (MachineLogic,), ns)
                            m = create_machine(cfg, logic=L())
                    except ImplementationMissingError:
                        if is_directive and name in ("log", "assign", "raise"):
                            res["violations"].append(dict(signature=f"C19|builtin-demanded|{provider}", clause="builtin-demanded",
                                                          what=f"creation demanded an implementation for the built-in action '{name}'; {case}", size=1,
                                                          replay=dict(kind="discovery", case=case)))
                        continue
                    except XStateMachineError:
                        continue
                    except Exception as exc:  # noqa: BLE001
                        res["violations"].append(dict(signature=f"C19|discovery-raw-{type(exc).__name__}|{provider}", clause="raw-exception",
                                                      what=f"creation raised raw {exc!r}; {case}", size=1, replay=dict(kind="discovery", case=case)))
                        continue
                    # creation succeeded: now the named implementation must run (or, for directives without impl, the built-in)
                    from ..threads import Installed
                    try:
                        with Installed():
                            i = SyncInterpreter(m)
                            i.start()
                            i.send("E", n=1)
                            i.stop()
                    except ImplementationMissingError as exc:
                        # an explicit MachineLogic is bound lazily (by design); only the direction the
                        # library documents (camelCase reference, snake_case method) must bind
                        lazy_ok = provider == "logic-subclass" and not (name in defs or (alt in defs and "_" in alt))
                        if not (name.startswith("spawn_")) and not lazy_ok:
                            res["violations"].append(dict(signature=f"C19|bound-at-creation-but-missing-at-run-time|{role}|{provider}", clause="late-missing",
                                                          what=f"create_machine succeeded but send() raised {exc!r}; {case}", size=1,
                                                          replay=dict(kind="discovery", case=case)))
                        continue
                    except XStateMachineError:
                        continue
                    except Exception as exc:  # noqa: BLE001
                        if name in ("assign", "raise", "log", "sendTo", "forwardTo") or name.startswith("spawn_"):
                            continue
                        res["violations"].append(dict(signature=f"C19|run-raw-{type(exc).__name__}|{role}|{provider}", clause="raw-exception",
                                                      what=f"run raised raw {exc!r}; {case}", size=1, replay=dict(kind="discovery", case=case)))
                        continue
                    supplied_exact = name in defs
                    if supplied_exact and calls[:1] != [name] and not name.startswith("spawn_"):
                        res["violations"].append(dict(signature=f"C19|named-implementation-did-not-run|{role}|{provider}", clause="wrong-implementation",
                                                      what=f"the user-supplied '{name}' did not run (calls {calls}); {case}", size=1,
                                                      replay=dict(kind="discovery", case=case)))
                    if defs and not calls and not name.startswith("spawn_") and not (provider == "logic-subclass" and not supplied_exact):
                        res["violations"].append(dict(signature=f"C19|supplied-implementation-did-not-run|{role}|{provider}", clause="wrong-implementation",
                                                      what=f"an implementation was supplied ({sorted(defs)}) but none of them ran - the built-in / nothing did; {case}", size=1,
                                                      replay=dict(kind="discovery", case=case)))
                    if not supplied_exact and calls and calls[0] != alt:
                        res["violations"].append(dict(signature=f"C19|unexpected-implementation-ran|{role}|{provider}", clause="wrong-implementation",
                                                      what=f"calls {calls}; {case}", size=1, replay=dict(kind="discovery", case=case)))


def reference_positions() -> List[Tuple[str, str, Dict[str, Any]]]:
    """Every place a config can reference a logic name -> (label, role, config referencing 'probeIt' there and nothing else)."""
    N = "probeIt"
    out: List[Tuple[str, str, Dict[str, Any]]] = []

    def base() -> Dict[str, Any]:
        return {"id": "d", "initial": "a", "states": {"a": {"on": {"E": {"target": "b"}}}, "b": {}}}

    def add(label, role, mut):
        cfg = base()
        mut(cfg)
        out.append((label, role, cfg))

    # ---- actions
    add("entry", "action", lambda c: c["states"]["a"].update(entry=[N]))
    add("exit", "action", lambda c: c["states"]["a"].update(exit=[N]))
    add("entry-object", "action", lambda c: c["states"]["a"].update(entry=[{"type": N, "params": {"k": 1}}]))
    add("entry-single", "action", lambda c: c["states"]["a"].update(entry=N))
    add("on-actions", "action", lambda c: c["states"]["a"]["on"]["E"].update(actions=[N]))
    add("on-list-second-candidate", "action", lambda c: c["states"]["a"]["on"].update(E=[{"target": "b", "guard": {"type": "stateIn", "params": {"state": "#d.b"}}}, {"target": "b", "actions": [N]}]))
    add("always-actions", "action", lambda c: c["states"]["b"].update(always={"target": "a", "guard": {"type": "stateIn", "params": {"state": "#d.zz"}}, "actions": [N]}))
    add("after-actions", "action", lambda c: c["states"]["a"].update(after={"100": {"target": "b", "actions": [N]}}))
    add("state-onDone-actions", "action", lambda c: c["states"].update(b={"initial": "f", "states": {"f": {"type": "final"}}, "onDone": {"target": "a", "actions": [N]}}))
    add("invoke-onDone-actions", "action", lambda c: c["states"].update(b={"invoke": {"src": "svc", "onDone": {"target": "a", "actions": [N]}}}))
    add("invoke-onError-actions", "action", lambda c: c["states"].update(b={"invoke": {"src": "svc", "onError": {"target": "a", "actions": [N]}}}))
    add("root-on-actions", "action", lambda c: c.update(on={"R": {"actions": [N]}}))
    add("root-entry", "action", lambda c: c.update(entry=[N]))
    add("nested-state-entry", "action", lambda c: c["states"].update(b={"initial": "p", "states": {"p": {"initial": "q", "states": {"q": {"entry": [N]}}}}}))
    add("parallel-region-exit", "action", lambda c: c["states"].update(b={"type": "parallel", "states": {"r1": {"initial": "p", "states": {"p": {"exit": [N]}}}, "r2": {}}}))
    # a state DECLARED final can still carry handlers, an invoke, and (the engine then treats it as compound) children
    add("final-state-on-actions", "action", lambda c: c["states"].update(b={"type": "final", "on": {"X": {"actions": [N]}}}))
    add("final-state-invoke-onDone-actions", "action", lambda c: c["states"].update(b={"type": "final", "invoke": {"src": "svc", "onDone": {"actions": [N]}}}))
    add("final-declared-state-with-children-entry", "action", lambda c: c["states"].update(b={"type": "final", "initial": "k", "states": {"k": {"entry": [N]}}}))
    # ---- guards: plain, and inside composites of depth 1..3 in every operand spelling
    def g_on(c, g, key="guard"):
        c["states"]["a"]["on"]["E"][key] = g
    add("on-guard", "guard", lambda c: g_on(c, N))
    add("on-cond", "guard", lambda c: g_on(c, N, "cond"))
    add("on-guard-object", "guard", lambda c: g_on(c, {"type": N, "params": {"k": 1}}))
    wrappers = {
        "and-children": lambda x: {"type": "and", "children": ["other", x]},
        "or-params.guards": lambda x: {"type": "or", "params": {"guards": [x, "other"]}},
        "not-children": lambda x: {"type": "not", "children": [x]},
        "not-params.guard": lambda x: {"type": "not", "params": {"guard": x}},
        "and-params.children": lambda x: {"type": "and", "params": {"children": [x]}},
    }
    for depth in (1, 2, 3):
        for combo in itertools.product(sorted(wrappers), repeat=depth):
            if depth == 3 and len(set(combo)) == 1 and combo[0] != "not-children":
                continue
            def mk(combo=combo):
                g: Any = N
                for w in reversed(combo):
                    g = wrappers[w](g)
                return g
            add("guard-in-" + ">".join(combo), "guard", lambda c, mk=mk: g_on(c, mk()))
    add("always-guard", "guard", lambda c: c["states"]["b"].update(always={"target": "a", "guard": N}))
    add("after-guard", "guard", lambda c: c["states"]["a"].update(after={"100": {"target": "b", "guard": N}}))
    add("state-onDone-guard", "guard", lambda c: c["states"].update(b={"initial": "f", "states": {"f": {"type": "final"}}, "onDone": {"target": "a", "guard": N}}))
    add("invoke-onDone-guard", "guard", lambda c: c["states"].update(b={"invoke": {"src": "svc", "onDone": {"target": "a", "guard": {"type": "not", "children": [{"type": "and", "children": [N]}]}}}}))
    add("invoke-onError-guard", "guard", lambda c: c["states"].update(b={"invoke": {"src": "svc", "onError": {"target": "a", "guard": N}}}))
    add("root-on-guard", "guard", lambda c: c.update(on={"R": {"target": ".b", "guard": N}}))
    add("final-state-on-guard", "guard", lambda c: c["states"].update(b={"type": "final", "on": {"X": {"target": "#d.a", "guard": N}}}))
    # ---- services
    add("final-state-invoke-src", "service", lambda c: c["states"].update(b={"type": "final", "invoke": {"src": N}}))
    add("invoke-src", "service", lambda c: c["states"].update(b={"invoke": {"src": N, "onDone": "a"}}))
    add("invoke-list-second", "service", lambda c: c["states"].update(b={"invoke": [{"src": "svc"}, {"src": N, "id": "second"}]}))
    add("nested-invoke-src", "service", lambda c: c["states"].update(b={"initial": "p", "states": {"p": {"invoke": {"src": N}}}}))
    return out


def run_positions(res):
    """Discovery demands - and binds - a name referenced at ANY position: with the implementation supplied creation binds it,
    without it creation raises ImplementationMissingError (never later)."""
    def fn(role):
        if role == "action":
            return lambda interp, ctx, ev, ad: None
        if role == "guard":
            return lambda ctx, ev: True
        return lambda interp, ctx, ev: 1

    for label, role, cfg in reference_positions():
        for provider in ("module", "instance"):
            for supplied in (True, False):
                res["evaluations"] += 1
                res["executions"] += 1
                res["distinct_count"] += 1
                defs = {"other": fn("guard"), "svc": fn("service")}
                if supplied:
                    defs["probeIt"] = fn(role)
                for k, f in defs.items():
                    f.__name__ = k
                case = f"position={label} role={role} provider={provider} supplied={supplied}"
                try:
                    if provider == "module":
                        mod = types.ModuleType("verif_pos_mod")
                        for k, f in defs.items():
                            f.__module__ = "verif_pos_mod"
                            setattr(mod, k, f)
                        m = create_machine(copy.deepcopy(cfg), logic_modules=[mod])
                    else:
                        ns = {k: (lambda f: (lambda self, *a: f(*a)))(f) for k, f in defs.items()}
                        for k in ns:
                            ns[k].__name__ = k
                        m = create_machine(copy.deepcopy(cfg), logic_providers=[type("Provider", (), ns)()])
                except ImplementationMissingError as exc:
                    if supplied:
                        res["violations"].append(dict(signature=f"C19|supplied-implementation-not-found|{role}", clause="not-bound",
                                                      what=f"creation raised {exc!r} although the implementation was supplied; {case}", size=1,
                                                      replay=dict(kind="positions", case=case)))
                    continue
                except Exception as exc:  # noqa: BLE001
                    res["violations"].append(dict(signature=f"C19|positions-raw-{type(exc).__name__}", clause="raw-exception",
                                                  what=f"creation raised {exc!r}; {case}", size=1, replay=dict(kind="positions", case=case)))
                    continue
                bound = getattr(m.logic, role + "s")
                if supplied and "probeIt" not in bound:
                    res["violations"].append(dict(signature=f"C19|referenced-name-not-bound|{role}", clause="not-bound",
                                                  what=f"creation succeeded but '{'probeIt'}' is not among the bound {role}s {sorted(bound)}; {case}", size=1,
                                                  replay=dict(kind="positions", case=case)))
                if not supplied:
                    res["violations"].append(dict(signature=f"C19|missing-implementation-not-reported-at-creation|{role}", clause="late-missing",
                                                  what=f"creation succeeded although no implementation of 'probeIt' exists; {case}", size=1,
                                                  replay=dict(kind="positions", case=case)))


def units(tier: str) -> List[Any]:
    us: List[Any] = []
    us.append(("positions", None, None, None))
    for name in all_cfgs():
        for style in ("functional", "builder", "class"):
            for variant in (("on", "objects") if style == "builder" else ("on", "objects", "pipe-left", "pipe-right", "pipe-balanced")):
                us.append(("translate", name, style, variant))
    us.append(("discovery", None, None, None))
    return us


def run_unit(unit):
    kind, name, style, variant = unit
    res = dict(states=0, transitions=0, executions=0, evaluations=0, distinct_count=0, violations=[], samples=[], caps=[])
    if kind == "translate":
        check_translation(name, all_cfgs()[name], style, variant, res)
        res["samples"].append(dict(machine=name, style=style, variant=variant))
    elif kind == "positions":
        run_positions(res)
        res["samples"].append(dict(kind="positions", cases=res["evaluations"]))
    else:
        run_discovery(res)
        res["samples"].append(dict(kind="discovery", cases=res["evaluations"]))
    res["states"] = res["executions"]
    res["transitions"] = res["executions"]
    return res


def replay(payload):
    res = dict(states=0, transitions=0, executions=0, evaluations=0, distinct_count=0, violations=[], samples=[], caps=[])
    if payload["kind"] == "translate":
        check_translation(payload["machine"], all_cfgs()[payload["machine"]], payload["style"], payload["variant"], res)
    else:
        run_discovery(res)
        res["violations"] = [v for v in res["violations"] if v["replay"].get("case") == payload.get("case")]
    for v in res["violations"]:
        print("  ", v["what"])
    return res["violations"]
