"""C14, sync engine, thread slice: stop() on one thread racing with an after-timer thread and a caller thread, every
interleaving (<= bound preemptions) at line granularity inside stop / send / _process_event_queue / the timer thread body."""
from __future__ import annotations

from typing import Any, Dict, List

from xstate_statemachine import MachineLogic, SyncInterpreter, create_machine

from .. import e2
from ..preempt import drive
from ..threads import Installed
from .c04_preempt import config

VARIANTS: Dict[str, Dict[str, Any]] = {
    "stop-vs-timer": dict(producers={"s": ["!stop"]}, timer=True),
    "stop-vs-caller": dict(producers={"s": ["!stop"], "p1": ["E1"]}, timer=False),
    "stop-vs-caller+timer": dict(producers={"s": ["!stop"], "p1": ["E1"]}, timer=True),
    "stop-stop-vs-timer": dict(producers={"s": ["!stop"], "s2": ["!stop"]}, timer=True),
}


def inner_code(fn, name: str):
    for c in fn.__code__.co_consts:
        if hasattr(c, "co_name") and c.co_name == name:
            return c
    raise LookupError(name)


def run(variant: str, ch: e2.Choices, bound: int) -> Dict[str, Any]:
    spec = VARIANTS[variant]
    inst = Installed()
    sched = inst.__enter__()
    it = None
    try:
        log: List[tuple] = []

        def mk(name):
            def act(i, c, e, a):
                log.append((name, e.type, sched.current.name))
            return act

        logic = MachineLogic(actions={n: mk(n) for n in ("e1", "e2", "f1", "x1", "r1", "tick")})
        it = SyncInterpreter(create_machine(config(spec["timer"]), logic=logic))
        cls = SyncInterpreter
        sched.trace_codes = {cls.send.__code__, cls._process_event_queue.__code__, cls.stop.__code__,
                             inner_code(cls._schedule_after if hasattr(cls, "_schedule_after") else cls._after_timer, "timer_thread")}
        sched.watch_codes = {cls._process_event.__code__, cls._process_event_queue.__code__}
        sched.on_frame = lambda kind, th, fn: log.append(("PROC-START" if fn == "_process_event" else "DRAIN-START", None, th))
        it.start()
        # every send() call is bracketed in the log, so an action can be attributed to the call that carried it
        real_send = it.send

        def send(*a, **kw):
            log.append(("SEND-START", None, sched.current.name))
            return real_send(*a, **kw)

        it.send = send  # type: ignore[method-assign]
        for name, evs in spec["producers"].items():
            def body(evs=evs, name=name):
                for ev in evs:
                    if ev == "!stop":
                        it.stop()
                        log.append(("STOP-RETURNED", None, name))
                    else:
                        it.send(ev)
            sched.spawn(body, name)
        d = drive(sched, ch, bound)
        bad: List[tuple] = []
        if d["capped"]:
            bad.append(("does-not-quiesce", f"{d['steps']} steps"))
        crashed = [t for t in sched.threads if t.exc is not None]
        if crashed:
            bad.append(("thread-raised", f"{crashed[0].name}: {crashed[0].exc!r}"))
        if it.status != "stopped":
            bad.append(("not-stopped", f"status {it.status} after stop() returned"))
        # An event accepted by a send() that STARTED before stop() returned is concurrent with stop(): C04 requires it to be
        # processed.  A violation is an action carried by a send() call that started after a stop() had already returned.
        first_stop = next((k for k, e in enumerate(log) if e[0] == "STOP-RETURNED"), None)
        if first_stop is not None:
            last_send: Dict[str, int] = {}
            last_drain: Dict[str, int] = {}
            for k, e in enumerate(log):
                if e[0] == "SEND-START":
                    last_send[e[2]] = k
                elif e[0] == "DRAIN-START":
                    last_drain[e[2]] = k
                elif e[0] == "PROC-START":
                    # a drain that STARTS after stop() has returned must find nothing to process (one that was already
                    # running when stop() returned is concurrent with it)
                    if k > first_stop and last_drain.get(e[2], -1) > first_stop:
                        bad.append(("delivered-after-stop-returned", f"thread {e[2].split('::')[0]} started a drain after stop() had returned and processed an event in it"))
                elif e[0] != "STOP-RETURNED" and k > first_stop and last_send.get(e[2], -1) > first_stop:
                    bad.append(("delivered-after-stop-returned", f"action {e[0]} ran in a send() call that started after stop() had returned"))
        alive = [t.name.split("::")[0] for t in sched.live()]
        if alive:
            bad.append(("thread-survives-stop", f"{alive} still alive (blocked) at quiescence"))
        if it._event_queue:
            bad.append(("queued-after-stop", f"{[e.type for e in it._event_queue]} left in the queue of a stopped interpreter"))
        order = tuple(e[0] for e in log if e[0] not in ("PROC-START", "DRAIN-START"))
        return dict(key=order, bad=bad, order=order, schedule=d["schedule"], preemptions=d["preemptions"])
    finally:
        try:
            if it is not None:
                it.stop()
        finally:
            inst.__exit__(None, None, None)


def explore(variant: str, bound: int, max_execs: int = 60000, root=None):
    results = []

    def on_exec(ch, out):
        results.append((list(ch.taken), out))

    n, capped = e2.explore(lambda ch: run(variant, ch, bound), on_exec=on_exec, max_execs=max_execs, root=root)
    return results, n, capped
