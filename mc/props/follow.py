"""FOLLOW family: TREE skeletons decorated with follow-ups.

A spec is (tree, mode, x, y):
  mode 'always' : node x gets  always: {target: #y, guard: armed} + assign disarm
  mode 'raise'  : node x's entry raises the universal event y (a name)
  mode 'ondone' : node x (compound/parallel with a final descendant) gets onDone -> #y
The base is the universal machine, so every source/target pair stays
available as an external event; `REARM` (root, targetless) re-arms the
always guard.  maxIterations is 8 so that feedback loops are cut quickly.
"""
from __future__ import annotations

from typing import Any, Dict, List, Tuple

from .. import families as F

MAX_ITER = 8


def _has_final_desc(n: F.N) -> bool:
    return any(d.kind == "F" for d in n.descendants())


def specs(nmax: int) -> List[tuple]:
    out: List[tuple] = []
    for t in F.trees_upto(nmax):
        nodes = F.flatten(t)
        real = [n for n in nodes if not n.is_history]
        for x in real:
            for y in nodes:
                out.append((t, "always", x.idx, y.idx))
        # raise: entry of x raises the universal event source->target
        for x in real:
            for s in real:
                for y in nodes:
                    # keep the family small: raised event's source is x itself,
                    # x's parent or the root
                    if s is x or s is x.parent or s.idx == 0:
                        out.append((t, "raise", x.idx, f"T{s.idx}_{y.idx}"))
        for x in real:
            if x.kind in ("C", "P") and _has_final_desc(x):
                for y in nodes:
                    out.append((t, "ondone", x.idx, y.idx))
    return out


def build(spec) -> Tuple[Dict[str, Any], List[F.N], Dict[str, Dict[str, Any]]]:
    tree, mode, x, y = spec
    cfg, nodes, events = F.universal_config(tree)
    cfg["maxIterations"] = MAX_ITER
    cfg["context"] = {"armed": True}
    xn = nodes[x]
    sub = F.cfg_node(cfg, xn)
    if mode == "always":
        sub["always"] = [
            {
                "target": f"#{nodes[y].id}",
                "guard": "armed",
                "actions": [
                    {"type": "xstate.assign", "params": {"assignment": {"armed": False}}},
                    "tr:ALWAYS",
                ],
            }
        ]
        events["ALWAYS"] = {"src": xn.id, "tgt": nodes[y].id, "kind": "always"}
        F.cfg_node(cfg, nodes[0]).setdefault("on", {})["REARM"] = {
            "actions": [{"type": "xstate.assign", "params": {"assignment": {"armed": True}}}, "tr:REARM"]
        }
        events["REARM"] = {"src": nodes[0].id, "tgt": None, "kind": "N"}
    elif mode == "raise":
        sub["entry"] = list(sub.get("entry", [])) + [
            {"type": "xstate.raise", "params": {"event": y}}
        ]
    elif mode == "ondone":
        sub["onDone"] = {"target": f"#{nodes[y].id}", "actions": ["tr:ONDONE"]}
        events["ONDONE"] = {"src": xn.id, "tgt": nodes[y].id, "kind": "ondone"}
    return cfg, nodes, events


def guards_for(spec) -> List[str]:
    return ["armed"]


def armed_guard(ctx, event, params=None):
    return bool(ctx.get("armed"))


def explore_c01(spec):
    from . import c01

    cfg, nodes, events = build(spec)
    tree, mode, x, y = spec
    return c01.explore_generic(
        cfg, nodes, events,
        label=f"{F.tree_str(tree)}+{mode}({x},{y})",
        replay=dict(kind="follow", spec=spec),
        shape_prefix=f"follow={mode}|",
        guard_impls={"armed": armed_guard},
    )


def replay_c01(payload):
    from . import c01

    spec = c01._tuplify(payload["spec"])
    cfg, nodes, events = build(spec)
    return c01.replay_generic(cfg, nodes, payload, guard_impls={"armed": armed_guard})
