"""FOLLOW family (always / raise / onDone follow-ups) — filled in below."""
def specs(n):
    return []
def explore_c01(spec):
    raise NotImplementedError
def replay_c01(payload):
    raise NotImplementedError
