"""C09, sync engine, thread slice: an invoked CHILD MACHINE finishing (its runner thread reports done.invoke) while the
caller leaves and re-enters the invoking state; every interleaving (<= bound preemptions) at line granularity inside
_queue_actor_done and _cancel_state_tasks (the runner's poll loop is one step per poll; send and the drain loop are C04's slice)."""
from __future__ import annotations

from typing import Any, Dict, List

from xstate_statemachine import MachineLogic, SyncInterpreter, create_machine

from .. import e2
from ..preempt import drive
from ..threads import Installed
from .c14_preempt import inner_code

VARIANTS: Dict[str, List[str]] = {
    "cancel": ["CANCEL"],
    "cancel-go": ["CANCEL", "GO"],
    "self-reenter": ["SELF"],
}


def run(variant: str, ch: e2.Choices, bound) -> Dict[str, Any]:
    bound = _split(bound)[0]
    ops = VARIANTS[variant]
    inst = Installed()
    sched = inst.__enter__()
    it = None
    try:
        log: List[tuple] = []

        def mk(name):
            def act(i, c, e, a):
                log.append((name, round(sched.now, 6), i.id))
            return act

        kid = create_machine({"id": "kid", "initial": "run", "states": {"run": {"after": {"250": "fin"}}, "fin": {"type": "final", "entry": ["kid_fin"]}}},
                             logic=MachineLogic(actions={"kid_fin": mk("kid_fin")}))
        cfg = {"id": "m", "initial": "idle", "states": {
            "idle": {"on": {"GO": "work"}},
            "work": {"entry": ["en_work"], "exit": ["ex_work"], "invoke": {"id": "svc", "src": "S", "onDone": {"target": "ok", "actions": ["od"]}},
                     "on": {"CANCEL": "idle", "SELF": {"target": "work", "reenter": True}}},
            "ok": {"on": {"GO": "work"}}}}
        logic = MachineLogic(actions={n: mk(n) for n in ("en_work", "ex_work", "od")}, services={"S": kid})
        it = SyncInterpreter(create_machine(cfg, logic=logic))
        cls = SyncInterpreter
        sched.trace_codes = {cls._cancel_state_tasks.__code__, cls._queue_actor_done.__code__}
        it.start()
        it.send("GO")   # activation 1 with its child, runner thread and the child's timer thread

        from ..threads import ShimEvent

        def body():
            ShimEvent().wait(0.25)   # the caller acts at the instant the child is due to finish
            for op in ops:
                it.send(op)
        sched.spawn(body, "p1")
        d = drive(sched, ch, bound, max_steps=6000)
        bad: List[tuple] = []
        if d["capped"]:
            bad.append(("does-not-quiesce", f"{d['steps']} steps"))
        crashed = [t for t in sched.threads if t.exc is not None]
        if crashed:
            bad.append(("thread-raised", f"{crashed[0].name}: {crashed[0].exc!r}"))
        # reference: per activation of `work`, onDone may run at most once and only after THAT activation's child reached
        # its final state (kid_fin logged since the activation was entered)
        fins_since_entry = 0
        ods = 0
        active = False
        for name, t, who in log:
            if name == "en_work":
                active, fins_since_entry, ods = True, 0, 0
            elif name == "ex_work":
                active = False
            elif name == "kid_fin":
                fins_since_entry += 1
            elif name == "od":
                ods += 1
                if fins_since_entry == 0:
                    bad.append(("stale-result-drove-handler", f"onDone ran at {t} although the child of the current activation has not finished: {[(n, tt) for n, tt, _ in log]}"))
                if ods > 1:
                    bad.append(("outcome-processed-twice", f"{[(n, tt) for n, tt, _ in log]}"))
        alive = [t.name.split("::")[0] for t in sched.live()]
        if alive and it.status != "running":
            bad.append(("thread-survives", f"{alive}"))
        order = tuple((n, t) for n, t, _ in log)
        return dict(key=order, bad=bad, order=order, schedule=d["schedule"], preemptions=d["preemptions"])
    finally:
        try:
            if it is not None:
                it.stop()
        finally:
            inst.__exit__(None, None, None)


def _split(bound):
    return (bound[0], bound[1]) if isinstance(bound, (tuple, list)) else (bound, 3)


def explore(variant: str, bound, max_execs: int = 60000, root=None):
    """bound = (preemptions, deviations).  Two polling runner threads and two child timers make the space of FREE
    choices (who runs when the running thread blocks) too large to exhaust; besides the preemption bound, the total number
    of non-default choices (free or preemptive) is bounded by `deviations`, the default being the time-ordered schedule."""
    results = []
    pb, dev = _split(bound)

    def on_exec(ch, out):
        results.append((list(ch.taken), out))

    n, capped = e2.explore(lambda ch: run(variant, ch, pb), bound=dev, on_exec=on_exec, max_execs=max_execs, root=root)
    return results, n, capped
