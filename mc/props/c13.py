"""C13 — every macrostep terminates and never starves the host.

LOOP family: one machine per (cycle kind, maxIterations M, natural length L,
trigger) plus external bursts; both engines.  Termination is decided by action
budgets (Budget exception after 60*M recorder entries, loop-iteration horizon,
SIGALRM backstop), never by waiting.
"""
from __future__ import annotations

import itertools
from typing import Any, Dict, List, Optional

from xstate_statemachine import actions as A

from .. import core
from ..core import Budget
from ..drivers import Harness
from ..vloop import Horizon

LEVEL = "model_checking"
RULE = (
    "LOOP machines = cycle kind {always<->always, action raising its own trigger (a fresh event, the very event object being handled, or a fresh event while a sibling region re-arms an after-timer on every link), onDone re-completing its own state, "
    "done.invoke of an instantly returning service re-entering its state, self-enqueueing pure / choose / "
    "enqueueActions} x maxIterations M x natural length L in {M-1, M, M+1, inf} x trigger {start(), event} x engine; "
    "REPEAT machines = M+2 finite chains of M-1 self-raised events each in ONE interpreter, started through send / send_events / a mix / a re-arming after-timer (none may be cut: the bound is per macrostep); "
    "BURST machines = B external events (send_events / separate sends / sends arriving while an async action of the current macrostep is suspended) for B in {M-1, M+1, 3M}; each case is one "
    "execution judged on: returns within budget, natural end for L<M, ERROR log + legal configuration + answering a "
    "probe event for L>M, every external event processed; distinct_nontrivial = distinct cases"
)
BOUNDS = {
    "quick": "M in {3,5,8}; all kinds, lengths, triggers, engines; repeated chains via 5 delivery paths; deep-expansion case M=60, L=55; bursts up to 3M",
    "thorough": "M in {3,5,8,13}; deep-expansion case M=60, L=55; bursts up to 3M",
}
ASSUMPTIONS = [
    "L == M is accepted either way (the statement does not say whether a chain of exactly the bound is cut)",
    "termination = returns before 60*M recorder entries / 20000 loop iterations; a SIGALRM backstop names the machine",
]
ENGINES = ("sync", "async")
KINDS = ("always", "raise", "raise_same", "raise_purge", "ondone", "invoke", "pure", "choose", "enqueue", "mixed_raise", "mixed_done", "mixed_sendto")
INF = 10 ** 9


def lt_guard(ctx, ev, params=None):
    return ctx["k"] < ctx["L"]


def inc(args):
    return {"k": args["context"]["k"] + 1}


def make(kind: str, M: int, L: int, trigger: str) -> Dict[str, Any]:
    """Returns cfg + services.  Chain steps run marker 'mk:step' and bump k;
    they continue while k < L."""
    step = [A.assign(inc), "mk:step"]
    # L counts self-fed EVENTS (microsteps for `always`, expansion depth for the
    # nested kinds).  For onDone / done.invoke the last event of the chain is
    # the one whose guard fails, so the number of steps is L-1.
    steps = L - 1 if kind in ("ondone", "invoke") and L != INF else L
    ctx = {"k": 0, "L": steps}
    svc = {}
    if kind == "always":
        loop = {
            "initial": "a",
            "states": {
                "a": {"always": [{"guard": "lt", "target": "b", "actions": step}]},
                "b": {"always": [{"guard": "lt", "target": "a", "actions": step}]},
            },
        }
    elif kind == "raise":
        loop = {
            "initial": "a",
            "entry": [A.raise_("LOOP")],
            "states": {"a": {}},
            "on": {"LOOP": {"actions": step + [A.choose([{"guard": "lt", "actions": [A.raise_("LOOP")]}])]}},
        }
    elif kind == "raise_same":
        # the chain re-raises the very SAME event object it is handling (a forwarding idiom): still one chain
        loop = {
            "initial": "a",
            "entry": [A.raise_("LOOP")],
            "states": {"a": {}},
            "on": {"LOOP": {"actions": step + [A.choose([{"guard": "lt", "actions": [A.raise_(lambda a: a["event"])]}])]}},
        }
    elif kind == "raise_purge":
        # every link of the chain also re-arms a watchdog timer in a sibling region (executed AFTER the raising
        # transition: 'feeder' sorts before 'watchdog'): leaving the timed state purges its stale notifications from the
        # queue while the next link is already queued there - the link must keep its place in the chain
        loop = {
            "type": "parallel",
            "entry": [A.raise_("LOOP")],
            "states": {
                "feeder": {"initial": "run", "states": {"run": {
                    "on": {"LOOP": {"actions": step + [A.choose([{"guard": "lt", "actions": [A.raise_("LOOP")]}])]}}}}},
                "watchdog": {"initial": "armed", "states": {
                    "armed": {"after": {"600000": "expired"}, "on": {"LOOP": {"target": "armed", "reenter": True}}},
                    "expired": {}}},
            },
        }
    elif kind in ("mixed_raise", "mixed_sendto"):
        # the self-delivery happens in the settle phase: event -> always -> entry raises event
        raiser = A.raise_("KICK") if kind == "mixed_raise" else A.send_to(lambda a: a["context"].get("__self__") or "m", "KICK")
        if kind == "mixed_sendto":
            raiser = {"type": "xstate.raise", "params": {"event": {"type": "KICK"}}}
        loop = {
            "initial": "ping",
            "states": {
                "ping": {"always": [{"guard": "lt", "target": "pong", "actions": step}]},
                "pong": {"entry": [raiser], "on": {"KICK": "ping"}},
            },
        }
    elif kind == "mixed_done":
        # always -> compound whose initial child is final -> onDone -> back
        loop = {
            "initial": "ping",
            "states": {
                "ping": {"always": [{"guard": "lt", "target": "box", "actions": step}]},
                "box": {"initial": "f", "states": {"f": {"type": "final"}}, "onDone": {"target": "ping"}},
            },
        }
    elif kind == "ondone":
        loop = {
            "initial": "f",
            "states": {"f": {"type": "final"}},
            "onDone": [{"guard": "lt", "target": "#m.loop", "reenter": True, "actions": step}],
        }
    elif kind == "invoke":
        loop = {
            "initial": "s",
            "states": {
                "s": {
                    "invoke": {"src": "instant", "onDone": [{"guard": "lt", "target": "s", "reenter": True, "actions": step}]},
                }
            },
        }
        svc = {"instant": lambda i, c, e: 1}
    elif kind in ("pure", "choose", "enqueue"):
        def again(args):
            if args["context"]["k"] < args["context"]["L"]:
                return [A.assign(inc), "mk:step", nested()]
            return []

        def enq(args):
            if args["context"]["k"] < args["context"]["L"]:
                args["enqueue"].assign(inc)
                args["enqueue"]("mk:step")
                args["enqueue"](nested())

        def nested():
            if kind == "pure":
                return A.pure(again)
            if kind == "choose":
                return A.choose([{"guard": "lt", "actions": [A.assign(inc), "mk:step", A.pure(lambda a: [nested()])]}])
            return A.enqueue_actions(enq)

        loop = {"initial": "a", "entry": [nested()], "states": {"a": {}}}
    else:
        raise ValueError(kind)
    if trigger == "start":
        cfg = {"id": "m", "initial": "loop", "states": {"loop": loop, "idle": {}}}
    else:
        cfg = {"id": "m", "initial": "idle", "states": {"idle": {"on": {"GO": "loop"}}, "loop": loop}}
    cfg["context"] = ctx
    cfg["maxIterations"] = M
    cfg["on"] = {"PROBE": {"actions": ["mk:probe"]}}
    return dict(cfg=cfg, services=svc, steps=steps)


def burst_cfg(M: int) -> Dict[str, Any]:
    return {
        "id": "m", "initial": "a", "maxIterations": M, "context": {"k": 0, "L": 0},
        "states": {"a": {"on": {"E": {"actions": ["mk:step"]}}}},
        "on": {"PROBE": {"actions": ["mk:probe"]}},
    }


def repeat_cfg(M: int, L: int) -> Dict[str, Any]:
    """Every GO starts a finite chain of L self-raised HOP events (L < M); TICK states re-arm a 10 ms timer whose
    transition raises one event per tick.  Many such chains in one interpreter never add up to a cut."""
    return {
        "id": "m", "initial": "idle", "maxIterations": M, "context": {"k": 0, "L": L},
        "states": {
            "idle": {"on": {"POLL": "poll"}},
            "poll": {"after": {"10": {"target": "poll", "reenter": True, "actions": [A.raise_("TICKED")]}}, "on": {"TICKED": {"actions": ["mk:tick"]}}},
        },
        "on": {
            "GO": {"actions": [A.assign({"k": 0}), A.raise_("HOP")]},
            "HOP": {"actions": [A.assign(inc), "mk:step", A.choose([{"guard": "lt", "actions": [A.raise_("HOP")]}])]},
            "PROBE": {"actions": ["mk:probe"]},
        },
    }


def units(tier: str) -> List[Any]:
    Ms = (3, 5, 8) if tier == "quick" else (3, 5, 8, 13)
    us: List[Any] = []
    for M in Ms:
        for how in ("send", "send_events_single", "send_events_batch", "mixed", "timer"):
            us.append(("repeat", how, M, M + 2, None))
    for kind in KINDS:
        for M in Ms:
            for L in (M - 1, M, M + 1, INF):
                for trig in ("start", "event"):
                    us.append(("loop", kind, M, L, trig))
    for kind in ("pure", "choose", "enqueue"):
        us.append(("loop", kind, 60, 55, "event"))
    # a runaway chain and a FINITE chain alive in one drain of the sync engine: the finite chain (L <= M links) is started by
    # another thread's send() while the runaway chain is at its j-th link; cutting the runaway one must not shorten it
    for M in Ms[:2]:
        for j in range(1, M + 1):
            for L in range(1, M + 1):
                us.append(("twochains", M, j, L, None))
    for M in Ms:
        for B in (M - 1, M + 1, 3 * M):
            for how in ("send_events", "sends", "during-suspended-action"):
                us.append(("burst", how, M, B, None))
    return us


def legal_simple(conf) -> bool:
    conf = set(conf)
    if "m" not in conf:
        return False
    tops = [c for c in conf if c.count(".") == 1]
    return len(tops) == 1


def run_two_chains(unit):
    import threading as _threading

    from xstate_statemachine import MachineLogic, SyncInterpreter, create_machine

    _, M, j, L, _n = unit
    res = dict(states=0, transitions=0, executions=1, evaluations=1, distinct_count=1, violations=[], samples=[], caps=[])
    cfg = {"id": "c13", "initial": "busy", "maxIterations": M, "context": {"loops": 0, "steps": 0, "pings": 0},
           "states": {"busy": {"on": {"LOOP": {"actions": ["loop"]}, "STEP": {"actions": ["step"]}, "PING": {"actions": ["ping"]}}}}}

    def loop(interp, ctx, event, action_def):
        ctx["loops"] += 1
        if ctx["loops"] > 50 * M:
            raise Budget("runaway chain never cut")
        if ctx["loops"] == j:
            t = _threading.Thread(target=lambda: interp.send("STEP"))   # an outside producer; joined: deterministic
            t.start()
            t.join()
        interp.send("LOOP")

    def step(interp, ctx, event, action_def):
        ctx["steps"] += 1
        if ctx["steps"] < L:
            interp.send("STEP")

    def ping(interp, ctx, event, action_def):
        ctx["pings"] += 1

    it = SyncInterpreter(create_machine(cfg, logic=MachineLogic(actions={"loop": loop, "step": step, "ping": ping})))
    bad = []
    try:
        it.start()
        try:
            it.send("LOOP")
        except Budget:
            bad.append(("chain-never-cut", "the runaway chain ran 50*M links"))
        except Exception:  # noqa: BLE001  (the cut may be reported by an exception)
            pass
        try:
            it.send("PING")
        except Exception:  # noqa: BLE001
            pass
        ctx = it.context
        if ctx["steps"] != L:
            bad.append(("finite-chain-cut-short(another-chain-hit-the-bound)", f"finite chain of {L} links (bound {M}) made {ctx['steps']} steps; runaway chain made {ctx['loops']}"))
        if ctx["pings"] != 1:
            bad.append(("event-after-cut-not-processed", f"PING handled {ctx['pings']} times"))
        if ctx["loops"] > M + 1:
            bad.append(("chain-longer-than-bound", f"runaway chain made {ctx['loops']} links with maxIterations {M}"))
    finally:
        try:
            it.stop()
        except Exception:  # noqa: BLE001
            pass
    for clause, detail in bad:
        res["violations"].append(dict(signature=f"C13|{clause}|sync|twochains", clause=clause,
                                      what=f"sync: {clause}: {detail}; case {unit}", size=1, replay=dict(unit=list(unit), engine="sync")))
    res["samples"].append(dict(case=list(unit)))
    return res


def run_unit(unit):
    kind0 = unit[0]
    if kind0 == "twochains":
        return run_two_chains(unit)
    res = dict(states=0, transitions=0, executions=0, evaluations=0, distinct_count=0, violations=[], samples=[], caps=[])

    def flag(clause, detail, engine):
        if kind0 == "loop":
            _, kind, M, L, trig = unit
            rel = "inf" if L == INF else ("<M" if L < M else "=M" if L == M else ">M")
            sig = f"C13|{clause}|{engine}|kind={kind}|L{rel}"
        elif kind0 == "repeat":
            sig = f"C13|{clause}|{engine}|via={unit[1]}"
        else:
            sig = f"C13|{clause}|{engine}|burst={unit[1]}"
        res["violations"].append(dict(signature=sig, clause=clause,
                                      what=f"{engine}: {clause}: {detail}; case {unit}", size=1,
                                      replay=dict(unit=list(unit), engine=engine)))

    for engine in ENGINES:
        res["evaluations"] += 1
        res["executions"] += 1
        res["distinct_count"] += 1
        if kind0 == "loop":
            _, kind, M, L, trig = unit
            spec = make(kind, M, L, trig)
            h = Harness(spec["cfg"], with_plugin=True, extra_guards={"lt": lt_guard}, services=spec["services"],
                        extra_markers=["mk:step"], budget=60 * max(M, 1) + 200, threads=(kind == "raise_purge"))
            d = h.driver(engine)
            if engine == "async":
                d.max_iters = 20000
            try:
                try:
                    err = d.start()
                    if trig == "event":
                        core.LOG.reset()
                        err = d.send("GO") or err
                except Budget as b:
                    its = getattr(getattr(d, "loop", None), "iterations", None)
                    if engine == "async" and its is not None and its > 50:
                        flag("chain-never-cut(loop-yields)", f"action budget exhausted ({b}) after {its} event-loop iterations: "
                             "the host is not starved but the self-feeding chain is never cut by maxIterations", engine)
                    else:
                        flag("does-not-terminate", f"action budget exhausted ({b}); the call never returned / the loop never yielded "
                             f"(event-loop iterations: {its})", engine)
                    continue
                except Horizon as hz:
                    flag("does-not-quiesce", str(hz), engine)
                    continue
                steps = sum(1 for e in d.rec.log if e[0] == "A" and e[1] == "mk:step")
                errors = core.LOG.errors()
                cut = [m for m in errors if "Exceeded" in m or "exceeded" in m]
                if err is not None:
                    flag("exception-escaped", repr(err), engine)
                if L < M:
                    fixed_depth = [m for m in errors if "Nested action expansion exceeded" in m]
                    if fixed_depth and M > 50 and steps != spec["steps"]:
                        # cause-oriented: the nested-expansion guard is a fixed depth, independent of maxIterations
                        res["violations"].append(dict(
                            signature=f"C13|nested-expansion-cut-at-fixed-depth(maxIterations>50)|{engine}", clause="short-chain-cut",
                            what=f"{engine}: a {kind} expansion chain of {L} levels (maxIterations {M}) was cut after {steps} steps: {fixed_depth[0][:120]}; case {unit}",
                            size=1, replay=dict(unit=list(unit), engine=engine)))
                    else:
                        if steps != spec["steps"]:
                            flag("short-chain-did-not-reach-natural-end", f"{steps} steps, natural {spec['steps']} (chain of {L} self-fed events, maxIterations {M}); log {cut[:1]}", engine)
                        if cut:
                            flag("short-chain-cut", f"{cut[:1]}", engine)
                elif L == INF:
                    if not cut:
                        flag("runaway-chain-no-error-log", f"{steps} steps, no ERROR record", engine)
                    if steps > 4 * M + 60:
                        flag("runaway-chain-cut-late", f"{steps} steps for maxIterations {M}", engine)
                elif L > M:
                    # finite chain above the bound: cut (with an ERROR) or natural end
                    if not cut and steps != spec["steps"]:
                        flag("chain-ended-early-without-error-log", f"{steps} of {spec['steps']} steps, no ERROR record", engine)
                o = d.observe()
                if not legal_simple(o[0]):
                    flag("illegal-configuration-after-cut", f"{o[0]}", engine)
                if o[2] != "running":
                    flag("interpreter-not-running-after-chain", f"status {o[2]}", engine)
                mark = d.rec.mark()
                try:
                    perr = d.send("PROBE")
                except (Budget, Horizon) as b:
                    flag("probe-does-not-terminate", str(b), engine)
                    continue
                answered = any(e[0] == "A" and e[1] in ("mk:probe", "mk:step") for e in d.rec.since(mark))
                if perr is not None or not answered:
                    flag("does-not-answer-next-event", f"probe error {perr!r}", engine)
            finally:
                d.close()
        elif kind0 == "repeat":
            _, how, M, R, _ = unit
            L = M - 1
            h = Harness(repeat_cfg(M, L), with_plugin=True, extra_guards={"lt": lt_guard}, extra_markers=["mk:step", "mk:tick"], budget=5000, threads=True)
            d = h.driver(engine)
            try:
                d.start()
                core.LOG.reset()

                def batch(evs):
                    d.send_batch([{"type": e} for e in evs])

                if how == "send":
                    for _ in range(R):
                        d.send("GO")
                elif how == "send_events_single":
                    for _ in range(R):
                        batch(["GO"])
                elif how == "send_events_batch":
                    batch(["GO"] * R)
                elif how == "mixed":
                    for i in range(R):
                        d.send("GO") if i % 2 == 0 else batch(["GO"])
                else:
                    d.send("POLL")
                    for _ in range(R):
                        d.advance(0.01)
                        d.settle()
                steps = sum(1 for e in d.rec.log if e[0] == "A" and e[1] == ("mk:tick" if how == "timer" else "mk:step"))

                def natural(batches):
                    """Reference run of the REPEAT machine without any bound: FIFO queue, GO resets k and raises HOP, HOP
                    bumps k, counts a step and raises HOP while k < L.  (In a batch the chains share k and interleave.)"""
                    n, k = 0, 0
                    for batch_ in batches:
                        q = list(batch_)
                        while q:
                            ev = q.pop(0)
                            if ev == "GO":
                                k = 0
                                q.append("HOP")
                            else:
                                k += 1
                                n += 1
                                if k < L:
                                    q.append("HOP")
                    return n

                want = R if how == "timer" else natural([["GO"] * R] if how == "send_events_batch" else [["GO"]] * R)
                cut = [m for m in core.LOG.errors() if "xceeded" in m]
                if steps != want or cut:
                    flag("short-chains-add-up-to-a-cut", f"{R} chains of {L if how != 'timer' else 1} self-raised event(s) each via {how}, maxIterations {M}: {steps} steps of {want}; log {cut[:1]}", engine)
            finally:
                d.close()
        else:
            _, how, M, B, _ = unit
            if how == "during-suspended-action" and engine == "sync":
                continue  # a sync action cannot suspend; outside sends during a drain are C04's thread slice
            cfgb = burst_cfg(M)
            acts = {}
            if how == "during-suspended-action":
                import asyncio as _asyncio

                async def slow(interp, ctx, ev, ad):
                    await _asyncio.sleep(0.1)

                cfgb["states"]["a"]["on"]["SLOW"] = {"actions": ["slow"]}
                acts = {"slow": slow}
            h = Harness(cfgb, with_plugin=True, budget=5000, extra_actions=acts)
            d = h.driver(engine)
            try:
                d.start()
                core.LOG.reset()
                if how == "during-suspended-action":
                    # the macrostep of SLOW is suspended in its action while B outside events arrive; then it resumes
                    d.send("SLOW")
                    for i in range(B):
                        d.send("E", n=i)
                    d.advance(0.2)
                    d.settle()
                elif how == "send_events":
                    evs = [{"type": "E", "n": i} for i in range(B)]
                    if engine == "sync":
                        d.interp.send_events(evs)
                    else:
                        d._call(d.interp.send_events(evs))
                else:
                    for i in range(B):
                        d.send("E", n=i)
                got = [e[3] for e in d.rec.log if e[0] == "A" and e[1] == "mk:step"]
                if got != list(range(B)):
                    flag("external-events-throttled-or-lost", f"sent {B} events with maxIterations {M}; processed payloads {got}; log {core.LOG.errors()[:1]}", engine)
            finally:
                d.close()
    res["states"] = res["executions"]
    res["transitions"] = res["executions"]
    res["samples"].append(dict(case=list(unit)))
    return res


def replay(payload):
    res = run_unit(tuple(payload["unit"]))
    out = [v for v in res["violations"] if v["replay"]["engine"] == payload["engine"]]
    for v in out:
        print("  ", v["what"])
    return out
