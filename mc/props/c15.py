"""C15 — actor messaging and supervision are exact.

E1 over sequences of actor operations on a three-level actor tree (parent, children
spawned by id / systemId / anonymously / through a spawn_<service> action, a
grandchild), on both engines (VLoop / thread shim), against a dictionary reference
model of the actor system: who exists, who is registered, what every actor has
received (exactly once, in order), which delayed sends are pending.
"""
from __future__ import annotations

import collections
import json
from typing import Any, Dict, List, Optional, Tuple

from xstate_statemachine import MachineLogic, create_machine
from xstate_statemachine import actions as A

from .. import core
from ..core import Budget
from ..drivers import Harness, canon_interp, strip_uuid

UNIT_TIMEOUT = 900  # backstop against a hung unit only; thread-slice subtrees can take minutes on a loaded machine
LEVEL = "model_checking"
RULE = (
    "parent machine with one root-level event per actor operation: spawnChild with id / with id+systemId / anonymous (explicit ids in a prefix relation 'a' / 'ab', generated ids made of the names used for addressing), "
    "spawn_<service> action, sendTo by id / systemId / service key / unknown name, forwardTo, delayed sendTo with a "
    "send id, a second delayed send reusing the id, cancel(id), two id-less delayed sends of one event type to different addressees pending at once, stopChild by id / systemId, child spawning a grandchild that registers a systemId of its own, "
    "escalate, a re-entering self-transition of the root state, stopChild of a child that already FINISHED while it owns a registered grandchild and a pending delayed sendParent, TICK (virtual time passes), stop; BFS over operation sequences to the depth bound, deduplicated by "
    "(canonical implementation state, reference-model state); after EVERY step the implementation is compared with a "
    "dictionary reference model: children map, registry, per-actor received sequence numbers, parent's "
    "acknowledgements, warnings for unresolvable/ambiguous targets, liveness of stopped actors and their descendants. "
    "Sync threads (E3p): one caller thread arming, re-arming and cancelling delayed sends under one send id against the fire "
    "threads, every interleaving at line granularity inside _deliver / _fire / _cancel / send / _process_event_queue within the "
    "preemption bound; oracle: a send that was still waiting when its cancel or re-arm completed is never delivered, an armed "
    "send that was never cancelled or superseded is delivered exactly once, no send id stays registered without a pending send; "
    "distinct_nontrivial = distinct joint states + distinct schedules"
)
BOUNDS = {"quick": "depth 4, both engines; sync threads: arm / re-arm / cancel of one send id against its fire threads, every line-level interleaving with <=1 preemption", "thorough": "depth 5, both engines; sync threads: <=2 preemptions (arm-rearm-cancel: 1)"}
ASSUMPTIONS = [
    "thread slice: a delayed send whose timer had already expired when the cancel / re-arm completed is concurrent with it and may still be delivered; one that was still waiting must not be",
    "a service key that matches several live actors (by id segment or by originating service) is ambiguous: the event must be dropped with a warning",
    "TICK uses the default timer order; tie orders are C08's subject",
]
ENGINES = ("sync", "async")
OPS = ["SP_ID", "SP_SYS", "SP_ANON", "SP_ACT", "SEND_A", "SEND_SYS", "SEND_KEY", "SEND_UNK", "FWD", "SEND_D", "SEND_D2",
       "CANCEL", "SEND_N", "STOP_A", "STOP_SYS", "GRAND", "ESC", "BEAT_START", "BEAT_CANCEL", "ROOT_RE", "TICK", "STOP"]


def seq_event(etype):
    return lambda args: {"type": etype, "n": args["event"].payload.get("n")}


def make(rec) -> Dict[str, Any]:
    def recv(interp, ctx, ev, ad):
        rec.log.append(("RECV", strip_uuid(interp.id), ev.type, ev.payload.get("n"), interp.status))

    def ack(interp, ctx, ev, ad):
        rec.log.append(("ACK", ev.payload.get("n")))

    def esc_seen(interp, ctx, ev, ad):
        rec.log.append(("ESCALATED", ev.type))

    def beat(interp, ctx, ev, ad):
        rec.log.append(("BEAT",))

    # a heartbeat: the delivered delayed send re-arms itself under the SAME send id
    arm = {"type": "xstate.raise", "params": {"event": "BEAT", "delay": 250, "id": "hb"}}

    grand = create_machine({"id": "grand", "initial": "x", "states": {"x": {"on": {"MSG": {"actions": ["recv"]}}}}},
                           logic=MachineLogic(actions={"recv": recv}))
    kid = create_machine(
        {"id": "kid", "initial": "x",
         "states": {"x": {"on": {
             "MSG": {"actions": ["recv", A.send_parent(seq_event("ACK"))]},
             "FWDMSG": {"actions": ["recv"]},
             "GRAND": {"actions": [A.spawn_child("grand", actor_id="g", system_id="sysg")]},
             "ESC": {"actions": [A.escalate("boom")]},
         }}}},
        logic=MachineLogic(actions={"recv": recv}, services={"grand": grand}),
    )
    on = {
        "SP_ID": {"actions": [A.spawn_child("kid", actor_id="a")]},
        "SP_SYS": {"actions": [A.spawn_child("kid", actor_id="ab", system_id="sysb")]},
        "SP_ANON": {"actions": [A.spawn_child("kid")]},
        "SP_ACT": {"actions": ["spawn_kid"]},
        "SEND_A": {"actions": [A.send_to("a", seq_event("MSG"))]},
        "SEND_SYS": {"actions": [A.send_to("sysb", seq_event("MSG"))]},
        "SEND_KEY": {"actions": [A.send_to("kid", seq_event("MSG"))]},
        "SEND_UNK": {"actions": [A.send_to("nobody", seq_event("MSG"))]},
        "FWDMSG": {"actions": [A.forward_to("a")]},
        "SEND_D": {"actions": [A.send_to("a", seq_event("MSG"), delay=300, send_id="d1")]},
        "SEND_D2": {"actions": [A.send_to("a", seq_event("MSG"), delay=200, send_id="d1")]},
        "CANCEL": {"actions": [A.cancel("d1")]},
        # two delayed sends WITHOUT a send id, same event type, different addressees, pending at once
        "SEND_N": {"actions": [A.send_to("a", seq_event("MSG"), delay=300), A.send_to("sysb", seq_event("MSG"), delay=200)]},
        "STOP_A": {"actions": [A.stop_child("a")]},
        "STOP_SYS": {"actions": [A.stop_child("sysb")]},
        "GRAND": {"actions": [A.send_to("a", "GRAND")]},
        "ESC": {"actions": [A.send_to("a", "ESC")]},
        "ACK": {"actions": ["ack"]},
        "xstate.error.actor.m:a": {"actions": ["esc_seen"]},
        "BEAT_START": {"actions": [arm]},
        "BEAT": {"actions": ["beat", arm]},
        "BEAT_CANCEL": {"actions": [A.cancel("hb")]},
        # a re-entering self-transition of the ROOT state: exits and re-enters every state of the machine; actors and pending
        # delayed sends belong to the interpreter, not to a state, and are untouched
        "ROOT_RE": {"target": "#m", "reenter": True},
    }
    cfg = {"id": "m", "initial": "s", "states": {"s": {}}, "on": on}
    return dict(cfg=cfg, services={"kid": kid}, actions={"ack": ack, "esc_seen": esc_seen, "beat": beat})


class Model:
    """Dictionary reference model of the actor system."""

    def __init__(self) -> None:
        self.actors: Dict[str, Dict[str, Any]] = {}     # id -> {recv: [..], kids: {...}}
        self.order: List[str] = []                       # spawn order of ids (for the service-key fallback)
        self.anon = 0
        self.registry: Dict[str, str] = {}
        self.acks: List[int] = []
        self.pending: Optional[Tuple[float, int, int]] = None  # (due, n, generation of the target) of delayed send d1
        self.nosid: List[Tuple[float, str, int, int]] = []       # id-less delayed sends: (due, target id, n, generation)
        self.gen: Dict[str, int] = {}
        self.now = 0.0
        self.stopped = False
        self.beat_due: Optional[float] = None
        self.dead_recv_forbidden: List[str] = []
        self.escalated = 0

    def key(self) -> tuple:
        return (
            tuple(sorted((k, tuple(v["recv"]), tuple(sorted(v["kids"]))) for k, v in self.actors.items())),
            tuple(sorted(self.registry.items())), tuple(self.acks), self.pending is not None, len(self.nosid), self.stopped, self.escalated,
            None if self.beat_due is None else round(self.beat_due - self.now, 6),
        )

    def spawn(self, aid: str) -> None:
        if aid in self.actors:
            self.kill(aid)
        self.actors[aid] = {"recv": [], "kids": {}}
        self.gen[aid] = self.gen.get(aid, 0) + 1
        self.order.append(aid)

    def kill(self, aid: str) -> None:
        self.actors.pop(aid, None)
        for sid, target in list(self.registry.items()):
            if target == aid or target.startswith(aid + ":"):   # the actor and all its descendants
                del self.registry[sid]

    def deliver(self, aid: Optional[str], n: int, etype: str = "MSG") -> bool:
        if aid is None or aid not in self.actors:
            return False
        self.actors[aid]["recv"].append((etype, n))
        if etype == "MSG":
            self.acks.append(n)
        return True

    def resolve_key(self) -> Tuple[Optional[str], bool]:
        """'kid' as a target, in the documented lookup order: actors whose generated id carries
        the key as a segment (anonymous spawns); otherwise actors that originate from that
        service.  One candidate -> it; several -> ambiguous (drop with a warning)."""
        anon = [k for k in self.actors if k.startswith("m:kid:")]
        cands = anon or list(self.actors)
        if len(cands) == 1:
            return cands[0], False
        if len(cands) > 1:
            return None, True
        return None, False

    def apply(self, op: str, n: int) -> Dict[str, Any]:
        """Returns expectations for this step: {'warn': bool, 'ambiguous': bool}."""
        exp = {"warn": False, "ambiguous": False, "beats": 0}
        if self.stopped:
            return exp
        if op == "SP_ID":
            self.spawn("m:a")
        elif op == "SP_SYS":
            self.spawn("m:ab")
            self.registry["sysb"] = "m:ab"
        elif op in ("SP_ANON", "SP_ACT"):
            self.anon += 1
            self.spawn(f"m:kid:*#{self.anon}")
        elif op == "SEND_A":
            exp["warn"] = not self.deliver("m:a" if "m:a" in self.actors else None, n)
        elif op == "SEND_SYS":
            exp["warn"] = not self.deliver(self.registry.get("sysb"), n)
        elif op == "SEND_KEY":
            tgt, amb = self.resolve_key()
            exp["ambiguous"] = amb
            exp["warn"] = not self.deliver(tgt, n)
        elif op == "SEND_UNK":
            exp["warn"] = True
        elif op == "FWD":
            exp["warn"] = not self.deliver("m:a" if "m:a" in self.actors else None, n, "FWDMSG")
        elif op in ("SEND_D", "SEND_D2"):
            if "m:a" in self.actors:
                self.pending = (self.now + (0.3 if op == "SEND_D" else 0.2), n, self.gen["m:a"])
            else:
                exp["warn"] = True
        elif op == "CANCEL":
            self.pending = None
        elif op == "SEND_N":
            missing = 0
            for tgt, delay in (("m:a", 0.3), (self.registry.get("sysb"), 0.2)):
                if tgt is not None and tgt in self.actors:
                    self.nosid.append((self.now + delay, tgt, n, self.gen[tgt]))
                else:
                    missing += 1
            exp["warn"] = missing > 0
        elif op == "STOP_A":
            if "m:a" in self.actors:
                self.kill("m:a")
            else:
                exp["warn"] = True
        elif op == "STOP_SYS":
            if "sysb" in self.registry:
                self.kill(self.registry["sysb"])
            else:
                exp["warn"] = True
        elif op == "GRAND":
            if "m:a" in self.actors:
                self.actors["m:a"]["kids"]["m:a:g"] = True
                self.registry["sysg"] = "m:a:g"
            else:
                exp["warn"] = True
        elif op == "ESC":
            if "m:a" in self.actors:
                self.escalated += 1
            else:
                exp["warn"] = True
        elif op == "BEAT_START":
            self.beat_due = self.now + 0.25      # re-arming under the same id supersedes the pending one
        elif op == "BEAT_CANCEL":
            self.beat_due = None
        elif op == "TICK":
            end = self.now + 1.0
            while self.beat_due is not None and self.beat_due <= end + 1e-9:
                exp["beats"] += 1
                self.beat_due += 0.25
            self.now += 1.0
            for due, tgt, pn, g in sorted(self.nosid):
                if tgt in self.actors and self.gen[tgt] == g:
                    self.deliver(tgt, pn)
            self.nosid = []
            if self.pending is not None:
                due, pn, g = self.pending
                self.pending = None
                # the target was resolved when the send was scheduled: a replaced or
                # stopped actor does not receive it
                if "m:a" in self.actors and self.gen["m:a"] == g:
                    self.deliver("m:a", pn)
        elif op == "STOP":
            self.stopped = True
            self.actors.clear()
            self.registry.clear()
            self.pending = None
            self.nosid = []
            self.beat_due = None
        return exp


class Run:
    def __init__(self, engine: str) -> None:
        self.engine = engine
        self.h = Harness({"id": "x", "states": {}}, with_plugin=False, threads=True, budget=6000)
        spec = make(self.h.rec)
        self.h.cfg = spec["cfg"]
        self.h._kw["services"] = spec["services"]
        self.h._kw["extra_actions"] = spec["actions"]
        # generated ids are made of the very names used for addressing ('a', 'ab', 'kid', 'g'): a name must never match
        # inside a generated id or inside a longer explicit id
        from ..drivers import install_uuid

        install_uuid(lambda n: f"{n:08x}-abab-4kid-8aab-{n:011x}g")
        self.d = self.h.driver(engine)
        self.d.start()
        self.model = Model()
        self.problems: List[Tuple[str, str]] = []
        self.everyone: Dict[int, Any] = {}
        self.n = 0

    def walk(self, interp, out):
        for aid, a in interp._actors.items():
            out[strip_uuid(aid)] = a
            self.everyone[id(a)] = a
            self.walk(a, out)

    def impl_state(self) -> Dict[str, Any]:
        i = self.d.interp
        actors: Dict[str, Any] = {}
        for aid, a in i._actors.items():
            self.everyone[id(a)] = a
            for gid, g in a._actors.items():
                self.everyone[id(g)] = g
        ids = sorted(strip_uuid(k) for k in i._actors)
        reg = {k: strip_uuid(v.id) for k, v in i._system.items()}
        return dict(ids=ids, registry=reg)

    def apply(self, op: str) -> None:
        self.n += 1
        n = self.n
        i = self.d.interp
        core.LOG.reset()
        mark = self.h.rec.mark()
        if op == "TICK":
            self.d.advance(1.0)
        elif op == "STOP":
            self.d.stop()
            self.d.settle() if self.engine == "async" else self.d.settle()
        else:
            ev = "FWDMSG" if op == "FWD" else op
            err = self.d.send(ev, n=n)
            if err is not None:
                self.problems.append(("send-raised", f"{op}: {err!r}"))
            if self.engine == "async":
                self.d.settle()
        seg = self.h.rec.since(mark)
        warns = core.LOG.warnings() + core.LOG.errors()
        exp = self.model.apply(op, n)
        st = self.impl_state()
        m = self.model
        # ---- children map
        want_ids = sorted(k.split("#")[0] for k in m.actors)
        if st["ids"] != want_ids:
            self.problems.append(("children-map", f"after {op}: implementation {st['ids']} reference {want_ids}"))
        if st["registry"] != m.registry:
            self.problems.append(("system-registry", f"after {op}: implementation {st['registry']} reference {m.registry}"))
        # ---- deliveries of this step
        got = [(e[1], e[2], e[3]) for e in seg if e[0] == "RECV"]
        acks = [e[1] for e in seg if e[0] == "ACK"]
        # expected deliveries of this step = new entries in the model
        want = getattr(self, "_last_recv_count", {})
        new_want = []
        for aid, a in m.actors.items():
            prev = want.get(aid, 0)
            for etype, k in a["recv"][prev:]:
                new_want.append((aid.split("#")[0], etype, k))
        self._last_recv_count = {aid: len(a["recv"]) for aid, a in m.actors.items()}
        if sorted(got, key=repr) != sorted(new_want, key=repr):
            clause = "delivery"
            if exp["ambiguous"] and got:
                clause = "ambiguous-target-delivered"
            elif len(got) > len(new_want):
                clause = "delivery-extra-or-duplicate"
            elif len(got) < len(new_want):
                clause = "delivery-lost"
            self.problems.append((clause, f"after {op}: received {got}, reference {new_want}"))
        want_acks = [k for (_, etype, k) in new_want if etype == "MSG"]
        if sorted(acks) != sorted(want_acks):
            self.problems.append(("sendParent", f"after {op}: parent acknowledged {acks}, reference {want_acks}"))
        if exp["warn"] and not got and not warns and op not in ("CANCEL",):
            self.problems.append(("dropped-without-warning", f"after {op}: nothing delivered and nothing logged"))
        # ---- received by a stopped actor
        for e in seg:
            if e[0] == "RECV" and e[4] != "running":
                self.problems.append(("stopped-actor-received", f"{e}"))
        # ---- every interpreter no longer in the tree must be stopped
        live_ids = set()
        for a in i._actors.values():
            live_ids.add(id(a))
            for g in a._actors.values():
                live_ids.add(id(g))
        for k, a in self.everyone.items():
            if k not in live_ids and a.status == "running":
                self.problems.append(("removed-actor-still-running", f"after {op}: {strip_uuid(a.id)} status {a.status}"))
        beats = sum(1 for e in seg if e[0] == "BEAT")
        if beats != exp.get("beats", 0):
            self.problems.append(("delayed-send-cancel/re-arm", f"after {op}: {beats} heartbeat deliveries, reference {exp.get('beats', 0)}"))
        esc = [e for e in seg if e[0] == "ESCALATED"]
        if op == "ESC" and "m:a" in m.actors and len(esc) != 1:
            self.problems.append(("escalate", f"parent saw {len(esc)} escalations"))

    def canon(self) -> tuple:
        # pending timers / waiting threads are part of the state: a send that should have been
        # cancelled but is still armed must not be merged with the state where it is gone
        if self.engine == "async":
            pend = len(self.d.loop.live_timers())
        else:
            pend = len([t for t in self.d.sched.live()
                        if not (t.state == "blocked" and t.wait_event is not None and t.wait_event._flag)
                        and t.state != "sleeping"])
        sends = tuple(sorted(self.d.interp._scheduled_sends))
        return (canon_interp(self.d.interp), self.model.key(), pend, sends)

    def close(self) -> None:
        self.d.close()


def run_seq(engine: str, seq: List[str]) -> Run:
    r = Run(engine)
    try:
        for op in seq:
            r.apply(op)
    except BaseException:
        r.close()
        raise
    return r


def _expand(engine, seqs, seen, depth, res):
    fresh = []
    for seq in seqs:
        try:
            r = run_seq(engine, seq)
        except Budget:
            continue
        res["executions"] += 1
        res["transitions"] += 1
        try:
            key = r.canon()
            probs = list(r.problems)
        finally:
            r.close()
        for clause, detail in probs:
            res["violations"].append(dict(signature=f"C15|{clause}|{engine}", clause=clause,
                                          what=f"{engine}: {clause}: {detail}; operations {seq}", size=len(seq),
                                          replay=dict(engine=engine, seq=seq)))
        if probs or key in seen:
            continue
        seen.add(key)
        res["distinct"].append(hash((engine, key)))
        if len(seq) < depth:
            fresh.append(seq)
    return fresh


PRE_DEPTH = 2


def run_done_then_stop(engine: str) -> Dict[str, Any]:
    """A child that has FINISHED (top-level final state) is stopped with stopChild: it still owns a grandchild (registered
    under a systemId) and a pending delayed sendParent.  Every order of {FINISH, WAIT 30 ms, STOPCHILD} prefixes that ends
    with STOPCHILD, then 1 s of virtual time and a message to the grandchild's systemId: afterwards nobody of that subtree
    is registered or running, the grandchild receives nothing and the root never hears LATE."""
    import itertools as _it

    res = dict(states=0, transitions=0, executions=0, distinct=[], violations=[], samples=[], caps=[])
    for pre in ([], ["WAIT"], ["FINISH"], ["FINISH", "WAIT"], ["WAIT", "FINISH"], ["FINISH", "WAIT", "WAIT"]):
        h = Harness({"id": "x", "states": {}}, with_plugin=True, threads=True, budget=3000)
        rec = h.rec

        def got(name):
            def f(interp, ctx, ev, ad):
                rec.log.append(("GOT", name, ev.type))
            return f

        gc = create_machine({"id": "gc", "initial": "x", "states": {"x": {"on": {"PING": {"actions": ["got"]}}}}},
                            logic=MachineLogic(actions={"got": got("gc")}))
        sup = create_machine(
            {"id": "sup", "initial": "run",
             "states": {"run": {"entry": [A.spawn_child("gc", actor_id="g", system_id="gc_sys")],
                                "on": {"FINISH": {"target": "fin", "actions": [{"type": "xstate.sendParent", "params": {"event": "LATE", "delay": 150}}]}}},
                        "fin": {"type": "final"}}},
            logic=MachineLogic(services={"gc": gc}))
        h.cfg = {"id": "m", "initial": "s", "states": {"s": {}},
                 "on": {"SPAWN": {"actions": [A.spawn_child("sup", actor_id="sup", system_id="sup_sys")]},
                        "FINISH": {"actions": [A.send_to("sup", "FINISH")]},
                        "STOPCHILD": {"actions": [A.stop_child("sup")]},
                        "PINGGC": {"actions": [A.send_to("gc_sys", "PING")]},
                        "LATE": {"actions": ["late"]}}}
        h._kw["services"] = {"sup": sup}
        h._kw["extra_actions"] = {"late": got("root")}
        d = h.driver(engine)
        try:
            d.start()
            d.send("SPAWN")
            d.settle()
            for op in pre:
                if op == "WAIT":
                    d.advance(0.03)
                else:
                    d.send(op)
                d.settle()
            d.send("STOPCHILD")
            d.settle()
            mark = len(rec.log)
            core.LOG.reset()
            d.advance(1.0)
            d.send("PINGGC")
            d.settle()
            d.advance(0.1)
            after = [e for e in rec.log[mark:] if e[0] == "GOT"]
            state = canon_interp(d.interp)
            res["executions"] += 1
            res["distinct"].append(hash((engine, tuple(pre))))
            probs = []
            if state[6]:
                probs.append(("children-map", f"actors still listed after stopChild: {[a[0] for a in state[6]]}"))
            if state[7]:
                probs.append(("registry-not-cleaned", f"systemIds still registered after stopChild of their (grand)parent: {state[7]}"))
            if any(e[1] == "gc" for e in after):
                probs.append(("removed-actor-still-running", f"the grandchild of the stopped child still handled {[e[2] for e in after if e[1] == 'gc']}"))
            if any(e[1] == "root" for e in after):
                probs.append(("stopped-child-delivered-delayed-send", "the root received LATE from the child it had stopped"))
            for clause, detail in probs:
                res["violations"].append(dict(signature=f"C15|{clause}|{engine}|finished-child", clause=clause,
                                              what=f"{engine}: {clause}: {detail}; SPAWN, {pre}, STOPCHILD, 1 s, PINGGC",
                                              size=len(pre), replay=dict(engine="done-then-stop", which=engine)))
        finally:
            d.close()
    res["states"] = res["executions"]
    res["samples"].append(dict(kind="finished child stopped", engine=engine, cases=res["executions"]))
    return res


def units(tier: str) -> List[Any]:
    depth = 4 if tier == "quick" else 5
    core.install_logging()
    us: List[Any] = []
    from . import c15_preempt as PP
    from ..preempt import split

    core.install_logging()
    for variant, (bq, bt) in PREEMPT.items():
        b = bq if tier == "quick" else bt
        for root in split(PP, variant, b):
            us.append(("preempt", variant, (b, root)))
    for engine in ENGINES:
        us.append(("done-then-stop", engine))
    for engine in ENGINES:
        res = dict(states=0, transitions=0, executions=0, distinct=[], violations=[], samples=[], caps=[])
        seen: set = set()
        level = _expand(engine, [[]], seen, depth, res)
        for _ in range(PRE_DEPTH):
            level = _expand(engine, [s + [op] for s in level for op in OPS], seen, depth, res)
        res["states"] = len(seen)
        res["samples"].append(dict(engine=engine, phase="top levels", states=len(seen)))
        us.append(("pre", engine, res))
        for seq in level:
            us.append(("sub", engine, seq, depth))
    return us


PREEMPT = {"arm-cancel": (1, 2), "arm-rearm": (1, 2), "arm-rearm-cancel": (1, 1), "arm-cancel-arm": (1, 1)}


def run_unit(unit):
    if unit[0] == "pre":
        return unit[2]
    if unit[0] == "done-then-stop":
        return run_done_then_stop(unit[1])
    if unit[0] == "preempt":
        from . import c15_preempt as P
        from ..preempt import unit_result

        return unit_result("C15", P, unit[1], unit[2][0], lambda v: f"caller ops {P.VARIANTS[v]} (10 ms apart) against the delayed-send threads of send id 'x'", root=unit[2][1])
    _, engine, root, depth = unit
    res = dict(states=0, transitions=0, executions=0, distinct=[], violations=[], samples=[], caps=[f"depth {depth}"])
    seen: set = set()
    level = [root + [op] for op in OPS]
    while level:
        fresh = _expand(engine, level, seen, depth, res)
        level = [s + [op] for s in fresh for op in OPS]
    res["states"] = len(seen)
    res["samples"].append(dict(engine=engine, root=root, states=len(seen), sequences=res["executions"]))
    return res


def replay(payload):
    if payload.get("engine") == "done-then-stop":
        r = run_done_then_stop(payload["which"])
        for v in r["violations"]:
            print("  ", v["what"][:300])
        return r["violations"]
    if payload.get("engine") == "preempt":
        from . import c15_preempt as P
        from ..preempt import replay_unit

        return replay_unit("C15", P, payload)
    r = run_seq(payload["engine"], payload["seq"])
    try:
        for c, d in r.problems:
            print("  ", c, d)
        return [dict(signature=f"C15|{c}", what=d) for c, d in r.problems]
    finally:
        r.close()
