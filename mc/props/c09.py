"""C09 — invoked services: one start per activation, one outcome, no zombie results.

SVC machines x service kinds (coroutine function, plain callable, child machine)
x outcomes (return / raise, with and without onError) x environment scripts that
cancel, re-enter, self-re-enter, poke or stop relative to the completion time x
all schedule choices, on both engines.
"""
from __future__ import annotations

import asyncio
import itertools
from typing import Any, Dict, List, Optional, Tuple

from xstate_statemachine import MachineLogic, create_machine
from xstate_statemachine import actions as A

from .. import core
from ..drivers import Harness, jsonable
from ..e2 import Choices, explore
from ..timeline import EPS, run_async, run_sync

UNIT_TIMEOUT = 900  # backstop against a hung unit only; thread-slice subtrees can take minutes on a loaded machine
LEVEL = "exploration"
RULE = (
    "SVC machine (idle -GO-> work[invoke] -> ok/err) x service kind {coroutine function, plain callable, child machine} "
    "x outcome {return, raise, coroutine that raises when it is cancelled} x {onError declared, not declared} x entry variant {plain, entry raises CANCEL+GO so the "
    "first result is queued behind a leave/re-enter pair, invoking state compound and entered through a descendant target}; environment scripts = GO at t=0 then all sequences up to the "
    "length bound over {CANCEL, GO, SELF, NOP, STOP} at grid instants straddling the completion time; all schedule "
    "choices (tied timers, ready work before/after a tied timer); judged per activation: service started exactly once "
    "with the declared input, exactly one outcome processed while current (data = that activation's own result), stale "
    "results discarded, error status without onError, nothing alive after exit/stop; distinct_nontrivial = distinct "
    "(variant, engine, script, schedule, observed handler sequence); service kind childg: an invoked child machine that owns a grandchild registered under a systemId, scripts of at most one operation after GO - when the activation has ended nothing of its subtree is left running or registered"
)
BOUNDS = {
    "quick": "scripts of length <=2 after the initial GO, 4-point grid, all schedule choices; sync threads: caller leaving / re-entering while the invoked child machine finishes, <=1 preemption and <=2 non-default choices",
    "thorough": "scripts of length <=3 after the initial GO, 4-point grid, all schedule choices; sync threads: <=1-2 preemptions, <=3 non-default choices",
}
ASSUMPTIONS = [
    "service duration 0.25 virtual seconds; grid {0.125, 0.25, 0.3125, 0.5}",
    "sync engine runs callables inline, so only event sequences (not timings) vary there; child machines run on "
    "virtual threads under the cooperative scheduler",
]
DUR = 0.25
GRID = (0.125, 0.25, 0.3125, 0.5)
HORIZON = 1.5


def variants() -> List[tuple]:
    out = []
    for kind in ("coro", "callable", "child"):
        for outcome in ("return", "raise"):
            if kind == "child" and outcome == "raise":
                continue
            for onerr in (True, False):
                if outcome == "return" and not onerr:
                    continue
                for entry in ("plain", "bounce"):
                    out.append((kind, outcome, onerr, entry))
                if kind == "coro" and outcome == "return":
                    # the service turns its own cancellation into an exception (failing clean-up): the failure of an
                    # activation that is over is discarded like its result
                    out.append((kind, "zombie", onerr, "plain"))
                    out.append((kind, "zombie", False, "plain"))
                    # ... or swallows its cancellation and RETURNS a value: a result produced by an activation that is
                    # over - discarded even when the state has been re-entered meanwhile
                    out.append((kind, "zombie-ret", True, "plain"))
                # the invoking state is COMPOUND and GO targets one of its descendants (entry through an explicit child
                # path), SELF still targets the state itself
                out.append((kind, outcome, onerr, "plain", "compound"))
    # the invoked child machine owns a GRANDCHILD registered under a systemId (explored with short scripts only: every
    # additional virtual thread multiplies the schedule choices)
    out.append(("childg", "return", True, "plain"))
    return out


def make(variant, rec, clock) -> Dict[str, Any]:
    kind, outcome, onerr, entry = variant[:4]
    shape = variant[4] if len(variant) > 4 else "atomic"
    calls: List[int] = []

    def note(ev):
        calls.append(len(calls) + 1)
        k = calls[-1]
        rec.log.append(("SVC", k, jsonable(getattr(ev, "payload", None)), clock()))
        return k

    async def coro(interp, ctx, ev):
        k = note(ev)
        if outcome == "zombie":
            try:
                await asyncio.sleep(DUR)
            except asyncio.CancelledError:
                rec.log.append(("SVCEND", k, clock()))
                raise ValueError(f"clean-up of call {k} failed")
            rec.log.append(("SVCEND", k, clock()))
            return f"r{k}"
        if outcome == "zombie-ret":
            try:
                await asyncio.sleep(DUR)
            except asyncio.CancelledError:
                rec.log.append(("SVCEND", k, clock()))
                return f"partial{k}"
            rec.log.append(("SVCEND", k, clock()))
            return f"r{k}"
        await asyncio.sleep(DUR)
        rec.log.append(("SVCEND", k, clock()))
        if outcome == "raise":
            raise ValueError(f"boom{k}")
        return f"r{k}"

    def plain(interp, ctx, ev):
        k = note(ev)
        rec.log.append(("SVCEND", k, clock()))
        if outcome == "raise":
            raise ValueError(f"boom{k}")
        return f"r{k}"

    def od(interp, ctx, ev, ad):
        data = ev.data
        if kind in ("child", "childg"):
            data = "child-done"
        rec.log.append(("OD", jsonable(data) if not isinstance(data, BaseException) else repr(data), clock()))

    def oe(interp, ctx, ev, ad):
        rec.log.append(("OE", repr(ev.data), clock()))

    def bounce(interp, ctx, ev, ad):
        pass

    child_machine = None
    if kind == "child":
        child_machine = create_machine(
            {"id": "kid", "initial": "run", "context": {"c": 1},
             "states": {"run": {"after": {"250": "fin"}}, "fin": {"type": "final"}}},
            logic=MachineLogic(),
        )
    elif kind == "childg":
        # the invoked child owns a GRANDCHILD registered under a systemId: whatever ends the activation (exit, completion,
        # stop) must take the whole subtree with it
        grand = create_machine({"id": "grand", "initial": "x", "states": {"x": {}}}, logic=MachineLogic())
        child_machine = create_machine(
            {"id": "kid", "initial": "run", "context": {"c": 1},
             "states": {"run": {"entry": [A.spawn_child("grand", actor_id="g", system_id="gsys")], "after": {"250": "fin"}},
                        "fin": {"type": "final"}}},
            logic=MachineLogic(services={"grand": grand}),
        )
    inv: Dict[str, Any] = {"id": "svc", "src": "S", "input": {"k": 1},
                           "onDone": {"target": "ok", "actions": ["od"]}}
    if onerr:
        inv["onError"] = {"target": "err", "actions": ["oe"]}
    work_entry: List[Any] = ["en:work"]
    if entry == "bounce":
        # first activation only: queue CANCEL, GO ahead of the service result
        work_entry.append(A.choose([{"guard": "first", "actions": [A.assign({"bounced": True}), A.raise_("CANCEL"), A.raise_("GO")]}]))
    cfg = {
        "id": "m", "initial": "idle", "context": {"bounced": False},
        "states": {
            "idle": {"on": {"GO": "work"}},
            "work": {"entry": work_entry, "exit": ["ex:work"], "invoke": inv,
                     "on": {"CANCEL": "idle", "SELF": {"target": "work", "reenter": True}, "NOP": {"actions": ["tr:nop"]}}},
            "ok": {"entry": ["en:ok"], "on": {"GO": "work", "BACK": "idle"}},
            "err": {"entry": ["en:err"], "on": {"GO": "work", "BACK": "idle"}},
        },
    }
    if shape == "compound":
        cfg["states"]["work"].update(initial="w1", states={"w1": {}, "w2": {}})
        for st in ("idle", "ok", "err"):
            cfg["states"][st]["on"]["GO"] = "#m.work.w2"
    svc = {"coro": coro, "callable": plain, "child": child_machine, "childg": child_machine}[kind]
    return dict(cfg=cfg, services={"S": svc}, actions={"od": od, "oe": oe},
                guards={"first": lambda ctx, ev, p=None: not ctx.get("bounced")})


TICK = 2.0 ** -10


def census(d) -> None:
    """Logged shortly after every op: what is alive for `work`."""
    i = d.interp
    o = d.observe()
    active_work = "m.work" in o[0] and o[2] != "stopped"
    kids = {k: a.status for k, a in i._actors.items()}
    tasks = 0
    if hasattr(i, "task_manager"):
        tasks = len([t for t in i.task_manager._tasks_by_owner.get("m.work", ()) if not t.done()])
    regs = {k: a.status for k, a in i._system.items()}
    d.rec.log.append(("CENSUS", d.now(), active_work, kids, tasks, o[2], regs))


def with_census(script: List[tuple]) -> List[tuple]:
    out: List[tuple] = []
    for i, it in enumerate(script):
        out.append(it)
        nxt = script[i + 1][0] if i + 1 < len(script) else None
        if it[1] != "STOP" and (nxt is None or nxt > it[0] + TICK):
            out.append((it[0] + TICK, census))
    return out


def scripts(maxlen: int) -> List[List[tuple]]:
    ops = ["CANCEL", "GO", "SELF", "NOP", "STOP"]
    out: List[List[tuple]] = [[(0.0, "GO")]]
    for n in range(1, maxlen + 1):
        for seq in itertools.product(ops, repeat=n):
            if "STOP" in seq[:-1]:
                continue
            for times in itertools.combinations_with_replacement(GRID, n):
                out.append([(0.0, "GO")] + [(t, op) for t, op in zip(times, seq)])
    return out


def judge(variant, engine, script, log, d) -> List[Tuple[str, str]]:
    kind, outcome, onerr, entry = variant[:4]
    zombie = outcome == "zombie"
    if zombie or outcome == "zombie-ret":
        outcome = "return"   # a call that completes returns; a cancelled call's failure must have no effect at all
    shape = variant[4] if len(variant) > 4 else "atomic"
    bad: List[Tuple[str, str]] = []
    acts: List[Dict[str, Any]] = []          # activations of `work`
    stop_called = False
    stop_returned = False
    for e in log:
        if e[0] == "A" and e[1] == "en:work":
            acts.append(dict(start=e[5], end=None, calls=[], outcomes=[], idx=len(acts) + 1))
        elif e[0] == "A" and e[1] == "ex:work":
            if acts and acts[-1]["end"] is None:
                acts[-1]["end"] = e[5]
        elif e[0] == "SVC":
            if not acts or acts[-1]["end"] is not None:
                bad.append(("service-started-outside-activation", f"call {e[1]} at {e[3]}"))
            else:
                acts[-1]["calls"].append(e)
                want = {"input": {"k": 1}}
                if e[2] != want:
                    bad.append(("service-input", f"service received {e[2]}, declared input {want}"))
        elif e[0] in ("OD", "OE"):
            if stop_returned:
                bad.append(("handler-after-stop-returned", f"{e}"))
            cur = acts[-1] if acts else None
            if cur is None or cur["end"] is None and False:
                pass
            # the handler leaves `work`: the activation it belongs to is the last one whose exit is pending/just happened
            # (exit marker runs before transition actions, so the activation is already closed at this point)
            owner = None
            for a in reversed(acts):
                if a["end"] is not None and abs(a["end"] - e[2]) < EPS:
                    owner = a
                    break
            if owner is None:
                bad.append(("handler-without-activation", f"{e}"))
                continue
            owner["outcomes"].append(e)
            if kind not in ("child", "childg"):
                if not owner["calls"]:
                    bad.append(("outcome-without-service-start", f"{e} for activation {owner['idx']}"))
                else:
                    k = owner["calls"][0][1]
                    want = f"r{k}" if e[0] == "OD" else f"ValueError('boom{k}')"
                    if e[1] != want:
                        bad.append(("stale-result-drove-handler", f"activation {owner['idx']} (service call {k}) handled {e[0]} with data {e[1]!r}, expected {want!r}"))
        elif e[0] == "CENSUS":
            _, t, active_work, kids, tasks, status, regs = e
            if not active_work:
                running = [k for k, st in kids.items() if st == "running"]
                if running:
                    bad.append(("child-interpreter-running-after-exit", f"at t={t}: work inactive but child actors running: {running}"))
                zombies = [k for k, st in regs.items() if st == "running"]
                if zombies:
                    bad.append(("descendant-of-ended-activation-still-running", f"at t={t}: work inactive but the system registry holds running actors {zombies}"))
                if tasks:
                    bad.append(("service-task-alive-after-exit", f"at t={t}: work inactive but {tasks} live task(s) owned by it"))
        elif e[0] == "OP" and e[1] == "STOP":
            stop_called = True
        elif e[0] == "OPDONE" and e[1] == "STOP":
            stop_returned = True
    # per activation accounting
    o = d.observe()
    for a in acts:
        zero_length = a["end"] is not None and abs(a["end"] - a["start"]) < EPS
        if kind not in ("child", "childg") and len(a["calls"]) != 1 and not (zero_length and len(a["calls"]) == 0):
            # an activation left within the macrostep that entered it may be left before the
            # (deferred) start; anything else must start the service exactly once
            bad.append(("service-start-count", f"activation {a['idx']} started the service {len(a['calls'])} times"))
        if len(a["outcomes"]) > 1:
            bad.append(("several-outcomes-for-one-activation", f"activation {a['idx']}: {a['outcomes']}"))
    # an activation that is still current at the end must have no outcome pending beyond the horizon
    last = acts[-1] if acts else None
    if last is not None and last["end"] is None and not stop_called:
        if last["start"] + DUR + 0.05 < HORIZON:
            if outcome == "raise" and not onerr:
                if o[2] != "error" or d.interp.error is None:
                    bad.append(("unhandled-failure-not-error-status", f"status {o[2]}, error {d.interp.error!r}"))
            else:
                bad.append(("outcome-never-processed", f"activation {last['idx']} entered at {last['start']} still waiting at {HORIZON}; log tail {log[-4:]}"))
    if outcome == "raise" and not onerr and o[2] == "error":
        if not isinstance(d.interp.error, ValueError):
            bad.append(("error-not-recorded", f"{d.interp.error!r}"))
    if o[2] == "error" and not (outcome == "raise" and not onerr):
        bad.append(("failed-by-an-activation-that-was-over", f"status error ({d.interp.error!r}) although no current activation failed unhandled"))
    if zombie and any(e[0] == "OE" for e in log):
        bad.append(("stale-result-drove-handler", "onError ran for the failure of a cancelled call"))
    # census
    if engine == "async":
        live = {k: len(v) for k, v in d.interp.task_manager._tasks_by_owner.items() if v}
        active_work = "m.work" in o[0] and o[2] == "running"
        if not active_work and live.get("m.work"):
            bad.append(("service-task-alive-after-exit", f"{live}"))
        if stop_returned and live:
            bad.append(("tasks-alive-after-stop", f"{live}"))
        kids = [a for a in d.interp._actors.values()]
        if (not active_work) and kids:
            bad.append(("child-actor-registered-after-exit", f"{list(d.interp._actors)}"))
    else:
        active_work = "m.work" in o[0] and o[2] == "running"
        kids = list(d.interp._actors.items())
        if not active_work:
            running = [k for k, a in kids if a.status == "running"]
            if running:
                bad.append(("child-interpreter-running-after-exit", f"{running}"))
            alive = [t.name for t in d.sched.live()] if d.sched else []
            if alive and stop_returned:
                bad.append(("threads-alive-after-stop", f"{alive}"))
    return bad


def harness_for(variant):
    h = Harness({"id": "x", "states": {}}, with_plugin=True, threads=True, budget=6000)
    clock = lambda: h.rec.clock() if h.rec.clock else 0.0  # noqa: E731
    spec = make(variant, h.rec, clock)
    h.cfg = spec["cfg"]
    h._kw["services"] = spec["services"]
    h._kw["extra_actions"] = spec["actions"]
    h._kw["extra_guards"] = spec["guards"]
    return h


def applicable(variant, engine) -> bool:
    kind = variant[0]
    if engine == "sync" and kind == "coro":
        return False
    return True


def run_one(variant, engine, script, prefix=None, tier="quick"):
    results = []

    def run(ch: Choices):
        h = harness_for(variant)
        d = (run_async if engine == "async" else run_sync)(h, with_census(script), ch, horizon=HORIZON)
        try:
            log = [e for e in h.rec.log if not (e[0] == "OP" and callable(e[1]))]
            bad = judge(variant, engine, script, log, d)
            seq = tuple((e[0], e[1]) for e in log if e[0] in ("OD", "OE", "SVC"))
            return dict(key=(seq, d.observe()[0], d.observe()[2]), bad=bad, seq=seq)
        finally:
            d.close()

    if prefix is not None:
        return [(prefix, run(Choices(prefix)))]

    def on_exec(ch, out):
        results.append((list(ch.taken), out))

    # child machines poll on a timer, which ties with almost every grid instant: the
    # schedule tree is explored up to a deviation bound there (iterative bounding)
    bound = None
    if variant[0] in ("child", "childg"):
        bound = 2 if tier == "quick" else 3
    n, capped = explore(run, on_exec=on_exec, max_execs=5000, bound=bound)
    return results, n, capped


# variant -> ((preemptions, deviations) quick, thorough)
PREEMPT = {"cancel": ((1, 2), (2, 3)), "cancel-go": ((1, 2), (1, 3)), "self-reenter": ((1, 2), (1, 3))}


def units(tier: str) -> List[Any]:
    maxlen = 2 if tier == "quick" else 3
    sc = scripts(maxlen)
    us = []
    from . import c09_preempt as PP
    from ..preempt import split

    core.install_logging()
    for pv, (bq, bt) in PREEMPT.items():
        b = bq if tier == "quick" else bt
        for root in split(PP, pv, b):
            us.append(("preempt", pv, (b, root), tier))
    for v in variants():
        for engine in ("sync", "async"):
            if not applicable(v, engine):
                continue
            size = 40 if v[0] not in ("child", "childg") else 12
            vsc = sc if v[0] != "childg" else [x for x in sc if len(x) <= 2]   # the initial GO + at most one operation
            for i in range(0, len(vsc), size):
                us.append((v, engine, vsc[i:i + size], tier))
    return us


def run_unit(unit):
    if unit[0] == "preempt":
        from . import c09_preempt as P
        from ..preempt import unit_result

        r = unit_result("C09", P, unit[1], unit[2][0], lambda v: f"caller ops {P.VARIANTS[v]} at the instant the invoked child machine finishes, against its runner and timer threads", root=unit[2][1])
        r["caps"].append(f"thread slice: at most {unit[2][0][1]} non-default scheduling choices per execution")
        return r
    variant, engine, batch, tier = unit
    res = dict(states=0, transitions=0, executions=0, evaluations=0, distinct=[], violations=[], samples=[], caps=[])
    if variant[0] in ("child", "childg"):
        res["caps"].append("child-machine src: schedules explored up to deviation bound %d" % (2 if tier == "quick" else 3))
    for script in batch:
        results, n, capped = run_one(variant, engine, script, tier=tier)
        res["executions"] += n
        res["evaluations"] += n
        if capped:
            res["caps"].append("max_execs per script")
        for taken, out in results:
            res["distinct"].append(hash((variant, engine, repr(script), tuple(taken), out["seq"])))
            for clause, detail in out["bad"]:
                res["violations"].append(dict(
                    signature=f"C09|{clause}|{engine}|src={variant[0]}",
                    clause=clause,
                    what=f"{engine}: {clause}: {detail}; variant {variant} script {script} schedule {taken}",
                    size=len(script) * 10 + len(taken),
                    replay=dict(variant=list(variant), engine=engine, script=script, schedule=taken),
                ))
    if batch:
        res["samples"].append(dict(variant=list(variant), engine=engine, script=batch[-1], executions=res["executions"]))
    return res


def replay(payload):
    if payload.get("engine") == "preempt":
        from . import c09_preempt as P
        from ..preempt import replay_unit

        return replay_unit("C09", P, payload)
    script = [tuple(x) for x in payload["script"]]
    out = run_one(tuple(payload["variant"]), payload["engine"], script, prefix=payload["schedule"])
    vs = []
    for taken, o in out:
        print("  handlers:", o["seq"])
        for clause, detail in o["bad"]:
            vs.append(dict(signature=f"C09|{clause}", what=detail))
            print("  ", clause, detail)
    return vs
