"""C16 — behaviour is deterministic.

E5 hash-order permuter: StateNode.__hash__ is replaced by a rank table, so that
the iteration order of every set of state nodes is the ascending rank order.
Enumerating all rank permutations enumerates every iteration order any heap
layout could produce.  For every machine with a parallel state or a history
node, the full Recorder trace of every transition of the BFS closure must be
identical under every permutation (and under a rebuilt machine).
"""
from __future__ import annotations

import itertools
from typing import Any, Dict, List

from xstate_statemachine.models import StateNode

from .. import families as F
from ..drivers import Harness
from ..e1 import bfs, build
from ..recorder import norm_ev_type

LEVEL = "model_checking"
RULE = (
    "for every TREE(N) universal machine containing a parallel state or a history node (up to 4 states with the shared events that select a transition in several regions at once): the reference run (identity "
    "ranks) enumerates all transitions (history, event) of the BFS closure; every rank permutation of the non-root, "
    "non-history nodes re-executes each of them on a freshly built machine and the full trace (configuration, context, "
    "ordered markers with event identity, on_transition arguments) must be byte-identical; plus a PYTHONHASHSEED "
    "subprocess sample; plus independence of process history: every sequence up to the length bound over six machines "
    "(parameterised guard with a 3-argument implementation, the same with a legacy 2-argument implementation, unparameterised, context factory embedding a definition-level mutable default, context factory embedding a mutable taken from the caller's input, a literal assign whose value is then mutated in place) "
    "is built with fresh callables, run and dropped in one process, each trace must equal the one the machine has by construction; plus independence of generated ids: an actor scenario addressed by bare service keys is run under five generated-id menus (sequential, descending, ids containing each service key), all traces must agree; distinct_nontrivial = distinct (machine, engine, transition, permutation) executions"
)
BOUNDS = {
    "quick": "TREE(N<=4) with parallel/history, all (<=24) rank permutations, both engines; hash seeds {1,2}; process-history sequences of length <=4 over 6 machines",
    "thorough": "TREE(N<=5) with parallel/history: all permutations when <=4 ranked nodes, for 5 ranked nodes all 120 "
                "permutations on machines with <=40 transitions else the 10 transpositions + reversal; hash seeds {1,2,3}",
}
ASSUMPTIONS = [
    "rank-hashed sets of <=8 nodes iterate in ascending rank order in CPython (no collisions below the table size)",
    "string-set iteration order is sampled across hash seeds, not enumerated",
]
ENGINES = ("sync", "async")
_RANK: Dict[str, int] = {}
_ORIG_HASH = StateNode.__hash__


def _rank_hash(self) -> int:
    return _RANK.get(self.id, 7)


def install_ranks(rank: Dict[str, int]) -> None:
    _RANK.clear()
    _RANK.update(rank)
    StateNode.__hash__ = _rank_hash  # type: ignore[assignment]


def uninstall_ranks() -> None:
    StateNode.__hash__ = _ORIG_HASH  # type: ignore[assignment]
    _RANK.clear()


# ------------------------------------------------------------------ independence of what ran earlier in the process
HIST_MACHINES = ("G3", "G2", "G0", "CF", "CI", "AL")
_AL_LITERAL = {"q": []}     # one assign literal, part of the definition every AL machine is built from
_CF_DEFAULTS = {"q": []}   # one definition-level defaults object every CF machine's context factory embeds
_CI_INPUT = {"q": []}      # one caller-side input object handed to every CI interpreter


def hist_machine(kind: str):
    """Freshly built machine + fresh callables every time.  G3: parameterised guard implemented with (ctx, event, params);
    G2: the same config but the guard implemented the legacy way (ctx, event), params ignored; G0: unparameterised guards."""
    from xstate_statemachine import MachineLogic, create_machine

    log: List[tuple] = []
    gcfg: Any = {"type": "atLeast", "params": {"min": 2}} if kind != "G0" else "always"
    cfg = {"id": "g", "initial": "a", "context": {"n": 0},
           "states": {"a": {"on": {"GO": [{"target": "b", "guard": gcfg, "actions": ["hit"]}, {"target": "c", "actions": ["miss"]}],
                                   "INC": {"actions": ["inc"]}}},
                      "b": {"on": {"BACK": "a"}}, "c": {"on": {"BACK": "a"}}}}

    def hit(i, c, e, a):
        log.append("hit")

    def miss(i, c, e, a):
        log.append("miss")

    def inc(i, c, e, a):
        c["n"] += 1

    if kind == "G3":
        def guard(ctx, ev, params):
            return ctx["n"] >= params["min"]
    elif kind == "G2":
        def guard(ctx, ev):
            return ctx["n"] >= 1
    else:
        def guard(ctx, ev):
            return True
    name = "always" if kind == "G0" else "atLeast"
    if kind in ("CF", "CI"):
        # context factory embedding a nested mutable that outlives the run (a definition-level default / the caller's input);
        # INC appends to it, the guard reads its length: every run starts from the factory's value, never from what an
        # earlier run left in the shared object
        cfg["context"] = (lambda args: {"n": 0, "q": _CF_DEFAULTS["q"]}) if kind == "CF" else (lambda args: {"n": 0, "q": args["input"]["q"]})

        def inc(i, c, e, a):   # noqa: F811
            c["q"].append("x")

        def guard(ctx, ev, params):   # noqa: F811
            return len(ctx["q"]) >= params["min"]
    if kind == "AL":
        # BACK resets q with a LITERAL assign and pushes once, INC pushes in place; GO is guarded by len(q) == 2: the
        # literal belongs to the definition, a run must never see what an earlier push left in it
        from xstate_statemachine import actions as _A

        cfg["context"] = {"n": 0, "q": []}
        for st in ("b", "c"):
            cfg["states"][st]["on"]["BACK"] = {"target": "a", "actions": [_A.assign(_AL_LITERAL), "inc"]}

        def inc(i, c, e, a):   # noqa: F811
            c["q"].append("x")

        def guard(ctx, ev, params):   # noqa: F811
            return len(ctx["q"]) == params["min"]
    m = create_machine(cfg, logic=MachineLogic(actions={"hit": hit, "miss": miss, "inc": inc}, guards={name: guard}))
    return m, log


def hist_trace(kind: str) -> tuple:
    from xstate_statemachine import SyncInterpreter

    m, log = hist_machine(kind)
    it = SyncInterpreter(m, input=_CI_INPUT) if kind == "CI" else SyncInterpreter(m)
    it.start()
    out = []
    for ev in ("GO", "BACK", "INC", "GO", "BACK", "INC", "GO"):
        it.send(ev)
        out.append(tuple(sorted(s.id for s in it._active_state_nodes)))
    it.stop()
    return (tuple(out), tuple(log))


def run_history(tier: str) -> Dict[str, Any]:
    """Every sequence over {G3, G2, G0} up to the length bound is built, run and dropped in ONE process; each run's trace
    must equal the trace the machine has by construction, whatever ran before it in the process."""
    import gc
    import itertools

    res = dict(states=0, transitions=0, executions=0, distinct_count=0, violations=[], samples=[], caps=[])
    # the traces these machines have by construction (events GO, BACK, INC, GO, BACK, INC, GO)
    A_, B_, C_ = ("g", "g.a"), ("g", "g.b"), ("g", "g.c")
    ref = {
        "G3": ((C_, A_, A_, C_, A_, A_, B_), ("miss", "miss", "hit")),     # atLeast{min:2} on n = 0, 1, 2
        "G2": ((C_, A_, A_, B_, A_, A_, B_), ("miss", "hit", "hit")),      # legacy guard n >= 1, params ignored
        "G0": ((B_, A_, A_, B_, A_, A_, B_), ("hit", "hit", "hit")),
    }
    ref["AL"] = ref["G2"]                                                  # len(q) == 2 on q = [], [x,x], [x,x]
    ref["CF"] = ref["CI"] = ref["G3"]                                      # len(q) = 0, 1, 2 against min 2
    maxlen = 4 if tier == "quick" else 5
    for n in range(1, maxlen + 1):
        for seq in itertools.product(HIST_MACHINES, repeat=n):
            for k in seq:
                got = hist_trace(k)
                gc.collect()
                res["executions"] += 1
                res["distinct_count"] += 1
                if got != ref[k]:
                    res["violations"].append(dict(
                        signature=f"C16|depends-on-earlier-machines-in-the-process|{k}", clause="history-dependence",
                        what=f"machine {k} after the process had built, run and dropped {list(seq)} (and all shorter sequences before): {got} instead of {ref[k]}",
                        size=n, replay=dict(kind="history", seq=list(seq))))
                    res["samples"].append(dict(kind="process history", sequences="aborted at first difference"))
                    return res
    res["samples"].append(dict(kind="process history", alphabet=list(HIST_MACHINES), max_length=maxlen, runs=res["executions"]))
    return res


# ------------------------------------------------------------------ independence of generated identifiers
ID_KEYS = ("db", "cafe", "a1")


class _UuidShim:
    """Stands in for the `uuid` module inside the engines: generated ids come from an adversarial menu."""

    def __init__(self, gen):
        self.gen = gen
        self.n = 0

    def uuid4(self):
        self.n += 1
        return self.gen(self.n)


def id_generators() -> Dict[str, Any]:
    """Generated-id menus: sequential, and ids made of / containing the service keys and explicit ids the machine uses
    (a bare key must never match INSIDE a generated id)."""
    gens = {"sequential": lambda n: f"{n:08x}-0000-4000-8000-{n:012x}"}
    for k in ID_KEYS:
        gens[f"contains-{k}"] = (lambda k: (lambda n: f"{(k * 8)[:8]}-{(k * 4)[:4]}-4{(k * 3)[:3]}-8{(k * 3)[:3]}-{n:012x}"))(k)
    gens["descending"] = lambda n: f"{0xffffffff - n:08x}-ffff-4fff-8fff-{0xffffffffffff - n:012x}"
    return gens


def run_ids() -> Dict[str, Any]:
    """Parent spawns four children anonymously (auto-generated ids) from services named like hex strings; sendTo by bare
    service key, forwardTo, stopChild by key; the trace must be the same under every generated-id menu."""
    from xstate_statemachine import MachineLogic, create_machine, actions as XA
    from xstate_statemachine import interpreter as ai, sync_interpreter as si
    import uuid as real_uuid

    res = dict(states=0, transitions=0, executions=0, distinct_count=0, violations=[], samples=[], caps=[])

    def build(log):
        def kid(name):
            return create_machine({"id": name, "initial": "x", "states": {"x": {"on": {"PING": {"actions": ["got", XA.send_parent("PONG_" + name)]}}}}},
                                  logic=MachineLogic(actions={"got": lambda i, c, e, a, name=name: log.append(("child-got", name))}))
        on = {"SPAWN": {"actions": [XA.spawn_child(k) for k in ID_KEYS] + [XA.spawn_child("worker")]}}
        for k in ID_KEYS:
            on["GO_" + k] = {"actions": [XA.send_to(k, "PING")]}
            on["PONG_" + k] = {"actions": ["pong_" + k]}
            on["KILL_" + k] = {"actions": [XA.stop_child(k)]}
        acts = {"pong_" + k: (lambda i, c, e, a, k=k: log.append(("pong", k))) for k in ID_KEYS}
        return create_machine({"id": "p", "initial": "a", "states": {"a": {}}, "on": on},
                              logic=MachineLogic(actions=acts, services={**{k: kid(k) for k in ID_KEYS}, "worker": kid("worker")}))

    script = ["SPAWN"] + ["GO_" + k for k in ID_KEYS] + ["KILL_" + ID_KEYS[0]] + ["GO_" + k for k in ID_KEYS]
    for engine in ENGINES:
        traces = {}
        for gname, gen in id_generators().items():
            from ..drivers import install_uuid, restore_uuid

            saved = install_uuid(gen)
            try:
                log: List[tuple] = []
                h = Harness({"id": "x", "states": {}}, with_plugin=False, threads=True, budget=None)
                h._machine = build(log)
                d = h.driver(engine)
                try:
                    d.start()
                    for ev in script:
                        d.send(ev)
                        d.settle()
                    traces[gname] = (tuple(log), tuple(sorted(strip(k) for k in d.interp._actors)))
                finally:
                    d.close()
            finally:
                restore_uuid(saved)
            res["executions"] += 1
            res["distinct_count"] += 1
        ref = traces["sequential"]
        for gname, tr in traces.items():
            if tr != ref:
                res["violations"].append(dict(
                    signature=f"C16|generated-ids-influence-behaviour|{engine}", clause="id-dependence",
                    what=f"{engine}: with generated ids of the form '{gname}' the run differs from the run with sequential ids: {tr} vs {ref}",
                    size=1, replay=dict(kind="ids")))
                break
    res["samples"].append(dict(kind="generated ids", menus=sorted(id_generators()), script=script))
    return res


def strip(actor_id: str) -> str:
    parts = actor_id.split(":")
    return ":".join(parts[:2])


def units(tier: str) -> List[Any]:
    n = 4 if tier == "quick" else 5
    out = [("history", tier), ("ids", tier)]
    for t in F.trees_upto(n):
        kinds = F.tree_kinds(t)
        if "P" in kinds or "Hs" in kinds or "Hd" in kinds:
            out.append((t, tier))
    return out


def trace_of(d, mark) -> tuple:
    out = []
    for e in d.rec.since(mark):
        if e[0] == "A":
            out.append(("A", e[1], norm_ev_type(e[2]), e[3], e[4]))
        elif e[0] == "TR":
            out.append(e)
        elif e[0] == "EV":
            out.append(e[:3])
    o = d.observe()
    return (tuple(out), o[0], o[1], o[2], o[3])


def run_unit(unit):
    if unit[0] == "history":
        r = run_history(unit[1])
        r["states"] = r["executions"]
        return r
    if unit[0] == "ids":
        r = run_ids()
        r["states"] = r["executions"]
        return r
    tree, tier = unit
    # trees of up to 4 non-root nodes also carry the shared events (one event answered by every state, each region with its
    # own target): only then does one event select transitions in several regions, whose ORDER is what can depend on hashing
    shared = "P" in F.tree_kinds(tree) and F.tree_size(tree) <= 5
    cfg, nodes, events = F.universal_config(tree, reenter_all=False, shared=shared)
    byid = {n.id: n for n in nodes}
    ranked = [n.id for n in nodes if n.idx != 0 and not n.is_history]
    res = dict(states=0, transitions=0, executions=0, distinct_count=0, violations=[], samples=[], caps=[])
    label = F.tree_str(tree)
    try:
        for engine in ENGINES:
            # ---- reference run, identity ranks
            ident = {nid: i + 1 for i, nid in enumerate(ranked)}
            ident["m"] = 0
            install_ranks(ident)
            h = Harness(cfg, with_plugin=True, fresh_machine=True)
            ref: Dict[tuple, tuple] = {}
            order: List[tuple] = []

            def on_state(d, hist):
                return F.legal_configuration(byid, d.observe()[0]) is None

            def on_step(d, hist, ev, mark, key_before):
                k = (tuple(hist), ev)
                ref[k] = trace_of(d, mark)
                order.append(k)
                return True

            def menu(d):
                o = d.observe()
                if o[2] != "running":
                    return []
                conf = set(o[0])
                return [n for n, e in events.items() if e["src"] in conf and e["kind"] in ("T", "R", "S")]

            def send(d, ev):
                d.send(ev, n=1)

            # start-up trace
            d0, _ = build(h, engine, [], send)
            start_ref = trace_of(d0, 0)
            d0.close()
            cl = bfs(h, engine, menu, on_state, on_step, send=send)
            res["states"] += cl.states
            res["transitions"] += cl.transitions
            res["executions"] += cl.executions
            perms = list(itertools.permutations(range(1, len(ranked) + 1)))
            if len(ranked) >= 5 and len(order) > 40:
                base = list(range(1, len(ranked) + 1))
                perms = [tuple(reversed(base))]
                for i in range(len(base)):
                    for j in range(i + 1, len(base)):
                        p = list(base)
                        p[i], p[j] = p[j], p[i]
                        perms.append(tuple(p))
                res["caps"].append("permutations-restricted(5-ranked-nodes,>40-transitions)")
            for perm in perms:
                if list(perm) == list(range(1, len(ranked) + 1)):
                    # identity again: this is the "rebuilt machine in the same process" comparison
                    pass
                rank = {nid: perm[i] for i, nid in enumerate(ranked)}
                rank["m"] = 0
                install_ranks(rank)
                d0, _ = build(h, engine, [], send)
                got0 = trace_of(d0, 0)
                d0.close()
                items = [((), None, start_ref, got0)]
                for k in order:
                    hist, ev = k
                    d, _ = build(h, engine, list(hist), send)
                    try:
                        mark = d.rec.mark()
                        send(d, ev)
                        got = trace_of(d, mark)
                    finally:
                        d.close()
                    res["executions"] += 1
                    res["distinct_count"] += 1
                    items.append((hist, ev, ref[k], got))
                for hist, ev, want, got in items:
                    if want != got:
                        e = events.get(ev) if ev else None
                        tk = byid[e["tgt"]].kind if e and e.get("tgt") else "start"
                        diff = "configuration" if want[1:] != got[1:] else "action-order"
                        res["violations"].append(dict(
                            signature=f"C16|{diff}|tgt={tk}",
                            clause=diff,
                            what=f"{engine}: trace of {list(hist) + ([ev] if ev else [])} on {label} differs under rank permutation "
                                 f"{rank}: reference {[x[1] for x in want[0] if x[0]=='A']} vs {[x[1] for x in got[0] if x[0]=='A']}",
                            size=len(hist) + len(nodes) * 10,
                            replay=dict(tree=tree, engine=engine, hist=list(hist) + ([ev] if ev else []), rank=rank),
                        ))
                        break
    finally:
        uninstall_ranks()
    res["samples"].append(dict(machine=label, ranked_nodes=ranked, transitions=res["transitions"]))
    return res


def replay(payload):
    from .c01 import _tuplify

    if payload.get("kind") == "ids":
        r = run_ids()
        for v in r["violations"]:
            print("  ", v["what"][:400])
        return r["violations"]
    if payload.get("kind") == "history":
        r = run_history("thorough")
        for v in r["violations"]:
            print("  ", v["what"][:400])
        return r["violations"]
    tree = _tuplify(payload["tree"])
    cfg, nodes, events = F.universal_config(tree, reenter_all=False, shared="P" in F.tree_kinds(tree) and F.tree_size(tree) <= 5)
    ranked = [n.id for n in nodes if n.idx != 0 and not n.is_history]
    out = []
    traces = []
    try:
        for rank in ({nid: i + 1 for i, nid in enumerate(ranked)}, payload["rank"]):
            rank = dict(rank)
            rank["m"] = 0
            install_ranks(rank)
            h = Harness(cfg, with_plugin=True, fresh_machine=True)
            d = h.driver(payload["engine"])
            d.start()
            mark = 0
            for ev in payload["hist"]:
                mark = d.rec.mark()
                d.send(ev, n=1)
            traces.append(trace_of(d, mark))
            print("  rank", rank, [x[1] for x in traces[-1][0] if x[0] == "A"])
            d.close()
    finally:
        uninstall_ranks()
    if traces[0] != traces[1]:
        out.append(dict(signature="C16|replayed", what="traces differ between rank assignments"))
    return out
