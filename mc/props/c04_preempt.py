"""C04, sync engine, thread slice: every interleaving (<= bound preemptions, line granularity inside send /
send_events / _process_event_queue) of caller threads and an after-timer thread sending to one interpreter."""
from __future__ import annotations

from typing import Any, Dict, List, Optional

from xstate_statemachine import MachineLogic, SyncInterpreter, create_machine

from .. import e2
from ..preempt import drive, overlapping
from ..threads import Installed

# variant -> (producer threads: name -> list of events, has after-timer, machine flavour)
VARIANTS: Dict[str, Dict[str, Any]] = {
    "caller+timer": dict(producers={"p1": ["E1"]}, timer=True),
    "caller2+timer": dict(producers={"p1": ["E1", "E2"]}, timer=True),
    "two-callers": dict(producers={"p1": ["E1", "E2"], "p2": ["F1"]}, timer=False),
    "two-callers+timer": dict(producers={"p1": ["E1"], "p2": ["F1"]}, timer=True),
    "raiser+caller": dict(producers={"p1": ["R1"], "p2": ["F1"]}, timer=False),
    # the caller's event exits the state whose timer expires at the same time (timer bookkeeping is shared by both threads)
    "leaver+timer": dict(producers={"p1": ["LEAVE"]}, timer=True, leave=True),
    # more external sends land during one drain than maxIterations allows self-raised events
    "burst-during-drain": dict(producers={"p1": ["E1"], "p2": ["F1", "F1", "F1"]}, timer=False, max_iterations=2),
}


def config(timer: bool, max_iterations=None) -> Dict[str, Any]:
    a: Dict[str, Any] = {"on": {ev: {"actions": [ev.lower()]} for ev in ("E1", "E2", "F1", "X1")}}
    a["on"]["R1"] = {"actions": ["r1", {"type": "raise", "params": {"event": {"type": "X1"}}}]}
    if timer:
        a["after"] = {"50": {"actions": ["tick"]}}
    a["on"]["LEAVE"] = {"target": "b", "actions": ["leave"]}
    cfg = {"id": "m", "initial": "a", "states": {"a": a, "b": {}}}
    if max_iterations is not None:
        cfg["maxIterations"] = max_iterations
    return cfg


def run(variant: str, ch: e2.Choices, bound: int) -> Dict[str, Any]:
    spec = VARIANTS[variant]
    inst = Installed()
    sched = inst.__enter__()
    it = None
    try:
        log: List[tuple] = []

        def mk(name):
            def act(i, c, e, a):
                log.append((name, e.type))
            return act

        from xstate_statemachine.actions import raise_ as _raise  # noqa: F401  (built-in referenced by name in config)

        logic = MachineLogic(actions={n: mk(n) for n in ("e1", "e2", "f1", "x1", "r1", "tick", "leave")})
        it = SyncInterpreter(create_machine(config(spec["timer"], spec.get("max_iterations")), logic=logic))
        cls = SyncInterpreter
        sched.trace_codes = {cls.send.__code__, cls.send_events.__code__, cls._process_event_queue.__code__}
        if spec.get("leave"):
            from .c14_preempt import inner_code

            sched.trace_codes |= {cls._cancel_state_tasks.__code__, inner_code(cls._after_timer, "timer_thread")}
        sched.watch_codes = {cls._process_event.__code__}
        sched.watch_preempt = True
        it.start()
        for name, evs in spec["producers"].items():
            def body(evs=evs):
                for ev in evs:
                    it.send(ev)
            sched.spawn(body, name)
        d = drive(sched, ch, bound)
        bad: List[tuple] = []
        if d["capped"]:
            bad.append(("does-not-quiesce", f"{d['steps']} steps"))
        crashed = [t for t in sched.threads if t.exc is not None]
        if crashed:
            bad.append(("thread-raised", f"{crashed[0].name}: {crashed[0].exc!r}"))
        expected = sorted([e.lower() for evs in spec["producers"].values() for e in evs] + (["tick"] if spec["timer"] else [])
                          + (["x1"] if any("R1" in evs for evs in spec["producers"].values()) else []))
        got = sorted(n for n, _ in log)
        stranded = [getattr(e, "type", e) for e in it._event_queue]
        if spec.get("leave"):
            # the timer may or may not beat LEAVE; if it runs it runs before the state is left, and LEAVE always completes
            names = [n for n, _ in log]
            if names.count("leave") != 1 or sorted(s.id for s in it._active_state_nodes) != ["m", "m.b"]:
                bad.append(("event-lost", f"LEAVE was accepted but the machine is in {sorted(s.id for s in it._active_state_nodes)}, actions {names}"))
            if names.count("tick") > 1 or ("tick" in names and names.index("tick") > names.index("leave") if "leave" in names else False):
                bad.append(("stale-timer-fired-after-exit", f"actions {names}"))
            if stranded and stranded != ["after.50.m.a"]:
                bad.append(("event-stranded-in-queue", f"{stranded}"))
            got = expected
            stranded = []
        if stranded:
            bad.append(("event-stranded-in-queue", f"all threads have returned, {stranded} still queued, processing flag {it._is_processing}"))
        elif got != expected:
            missing = [x for x in expected if got.count(x) < expected.count(x)]
            extra = [x for x in set(got) if got.count(x) > expected.count(x)]
            bad.append(("event-lost" if missing else "event-duplicated", f"processed {got}, accepted {expected}"))
        ov = overlapping(sched.frames, "_process_event")
        if ov:
            bad.append(("events-processed-concurrently", f"threads {ov[0]} and {ov[1]} inside _process_event at the same time"))
        for name, evs in spec["producers"].items():
            seq = [n for n, _ in log if n.upper() in evs]
            if [s.upper() for s in seq] != [e for e in evs if e.lower() in seq] and not stranded:
                bad.append(("sender-order-violated", f"{name} sent {evs}, processed {seq}"))
        order = tuple(n for n, _ in log)
        return dict(key=(order, tuple(stranded)), bad=bad, order=order, schedule=d["schedule"], preemptions=d["preemptions"])
    finally:
        try:
            if it is not None:
                it.stop()
        finally:
            inst.__exit__(None, None, None)


def explore(variant: str, bound: int, max_execs: int = 60000, root=None):
    results = []

    def on_exec(ch, out):
        results.append((list(ch.taken), out))

    n, capped = e2.explore(lambda ch: run(variant, ch, bound), on_exec=on_exec, max_execs=max_execs, root=root)
    return results, n, capped
