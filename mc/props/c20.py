"""C20 — event descriptors: exact > partial > wildcard; internal private; null forbids.

Complete enumeration of descriptor key sets over a bounded alphabet, driven
through the real send() on both engines and compared with a reference matcher
written from the statement.
"""
from __future__ import annotations

import itertools
from typing import Any, Dict, List, Optional, Tuple

from ..drivers import Harness

LEVEL = "model_checking"
RULE = (
    "segment alphabet {a,b}; event types = all dotted words of length <=3 plus done.x, error.x, after.x, xstate.x and three near-miss types whose segments merely start with a descriptor prefix (ab, ab.b, a.ab) and two types with a segment '$b' that sorts below '*' "
    "(23); descriptor universe = exact words, 'p.*' for |p|<=2, '*', 'a.$b', 'a.$b.*' (23 keys); ALL key sets up to the size bound on "
    "a leaf, all pairs of key sets on (leaf, parent); every key is a targetless marker transition; variants: "
    "unguarded, each key with a false guard, each key declared null; each (machine, event) evaluation goes through "
    "the real send() and is compared with the reference matcher; distinct_nontrivial = distinct (key-set, variant, "
    "event, expected outcome) tuples where at least one key matches the event"
)
BOUNDS = {
    "quick": "leaf key sets |K|<=3; (leaf,parent) pairs |K|<=2 x |K|<=1; (leaf,parent,root) triples |K|<=1 x |K|<=1 x |K|=1; 25 event types; sync+async",
    "thorough": "leaf key sets |K|<=4; (leaf,parent) pairs |K|<=2 x |K|<=2; (leaf,parent,root) triples |K|<=2 x |K|<=1 x |K|=1; 25 event types; sync+async",
}
ASSUMPTIONS = ["segment alphabet of two letters, words up to three segments"]
ENGINES = ("sync", "async")

SEG = ("a", "b")
WORDS = [".".join(w) for n in (1, 2, 3) for w in itertools.product(SEG, repeat=n)]
INTERNAL = ["done.x", "error.x", "after.x", "xstate.x"]
# event types that share CHARACTERS with a descriptor prefix but not a SEGMENT: "a.*" matches "a" and "a.b", never "ab"
NEAR = ["ab", "ab.b", "a.ab"]
# a segment that starts with a character sorting BELOW '*' ('$'): "longest prefix first" is an order by length, not by text
LOWSEG = ["a.$b", "a.$b.a"]
EVENTS = WORDS + INTERNAL + NEAR + LOWSEG
PREFIXES = [".".join(w) for n in (1, 2) for w in itertools.product(SEG, repeat=n)]
KEYS = WORDS[:] + [p + ".*" for p in PREFIXES] + ["*"] + ["a.$b", "a.$b.*"]
# internal event names can also be declared as exact keys
KEYS_INTERNAL = ["done.x", "xstate.x", "done.*", "error.*"]
ALLKEYS = KEYS + KEYS_INTERNAL


def ref_order(keys: List[str], etype: str) -> List[str]:
    order = []
    if etype in keys:
        order.append(etype)
    if etype.startswith(("done.", "error.", "after.", "xstate.")):
        return order
    partials = []
    for k in keys:
        if k == "*" or not k.endswith(".*"):
            continue
        p = k[:-2]
        if etype == p or etype.startswith(p + "."):
            partials.append(k)
    partials.sort(key=len, reverse=True)
    order += partials
    if "*" in keys:
        order.append("*")
    return order


def ref_fire(levels: List[Dict[str, str]], etype: str) -> Optional[str]:
    """levels: leaf first; each maps key -> 'ok' | 'false' | 'null'. Returns the
    marker expected to fire ('<level>:<key>') or None."""
    for li, spec in enumerate(levels):
        for k in ref_order(list(spec), etype):
            mode = spec[k]
            if mode == "null":
                return None
            if mode == "ok":
                return f"{li}:{k}"
    return None


def make_cfg(levels: List[Dict[str, str]]) -> Dict[str, Any]:
    def on_of(li, spec):
        on: Dict[str, Any] = {}
        for k, mode in spec.items():
            if mode == "null":
                on[k] = None
            elif mode == "false":
                on[k] = {"guard": "never", "actions": [f"k:{li}:{k}"]}
            else:
                on[k] = {"actions": [f"k:{li}:{k}"]}
        return on

    leaf = {"on": on_of(0, levels[0])}
    parent = {"initial": "leaf", "states": {"leaf": leaf}}
    if len(levels) > 1:
        parent["on"] = on_of(1, levels[1])
    root: Dict[str, Any] = {"id": "m", "initial": "p", "states": {"p": parent}}
    if len(levels) > 2:
        # third level: the handlers of the machine root itself
        root["on"] = on_of(2, levels[2])
    return root


def variants(spec_keys: Tuple[str, ...]) -> List[Dict[str, str]]:
    base = {k: "ok" for k in spec_keys}
    out = [base]
    for k in spec_keys:
        v = dict(base)
        v[k] = "false"
        out.append(v)
        v = dict(base)
        v[k] = "null"
        out.append(v)
    return out


def units(tier: str) -> List[Any]:
    kmax = 3 if tier == "quick" else 4
    us: List[Any] = []
    batch: List[Any] = []

    def push(item):
        batch.append(item)
        if len(batch) >= 40:
            us.append(list(batch))
            batch.clear()

    for n in range(0, kmax + 1):
        for ks in itertools.combinations(KEYS, n):
            push(("leaf", ks, ()))
    # internal-name keys combined with one ordinary key
    for ik in KEYS_INTERNAL:
        for k in [None] + KEYS:
            push(("leaf", (ik,) + ((k,) if k else ()), ()))
    pmax = 1 if tier == "quick" else 2
    for n in range(0, 3):
        for ks in itertools.combinations(KEYS, n):
            for pn in range(1, pmax + 1):
                for ps in itertools.combinations(KEYS, pn):
                    push(("pair", ks, ps))
    # three levels (leaf, parent, machine root): the walk up the ancestor chain continues past the parent
    tmax = 1 if tier == "quick" else 2
    for n in range(0, tmax + 1):
        for ks in itertools.combinations(KEYS, n):
            for pn in range(0, 2):
                for ps in itertools.combinations(KEYS, pn):
                    for g in KEYS:
                        push(("triple", ks, (ps, (g,))))
    if batch:
        us.append(list(batch))
    return us


def never(ctx, ev, params=None):
    return False


def run_case(kind, ks, ps, res, viol):
    if kind == "leaf":
        level_sets = [[v] for v in variants(ks)]
    elif kind == "triple":
        ps, gs = ps
        okp, okg = {k: "ok" for k in ps}, {k: "ok" for k in gs}
        level_sets = [[v, okp, okg] for v in variants(ks)]
        for pv in variants(ps)[1:]:
            level_sets.append([{k: "ok" for k in ks}, pv, okg])
        for gv in variants(gs)[1:]:
            level_sets.append([{k: "ok" for k in ks}, okp, gv])
        ps = ()
    else:
        level_sets = [[v, {k: "ok" for k in ps}] for v in variants(ks)]
        # parent-level variants too (null / false on the parent)
        for pv in variants(ps)[1:]:
            level_sets.append([{k: "ok" for k in ks}, pv])
    for levels in level_sets:
        cfg = make_cfg(levels)
        for engine in ENGINES:
            h = Harness(cfg, with_plugin=False, extra_guards={"never": never}, budget=None)
            h.rec.with_conf = False
            d = h.driver(engine)
            try:
                err = d.start()
                if err is not None:
                    raise AssertionError(f"start failed {err!r} for {cfg}")
                for et in EVENTS:
                    mark = d.rec.mark()
                    err = d.send(et)
                    fired = [e[1][2:] for e in d.rec.since(mark) if e[0] == "A"]
                    want = ref_fire(levels, et)
                    res["evaluations"] += 1
                    if any(ref_order(list(sp), et) for sp in levels):
                        res["distinct"].append(hash((repr(levels), et, want)))
                    got = fired[0] if len(fired) == 1 else (None if not fired else tuple(fired))
                    if err is not None or got != want:
                        matched = ref_order(list(levels[0]), et)
                        cls = "internal" if et in INTERNAL else "plain"
                        clause = (
                            "forbidden-null" if any("null" in sp.values() for sp in levels)
                            else "guarded-candidate" if any("false" in sp.values() for sp in levels)
                            else "priority"
                        )
                        viol.append(dict(
                            signature=f"C20|{clause}|event={cls}|levels={len(levels)}",
                            clause=clause,
                            what=f"{engine}: event '{et}' on key sets {levels}: expected marker {want}, fired {fired}, error {err!r}",
                            size=sum(len(sp) for sp in levels),
                            replay=dict(levels=levels, engine=engine, event=et),
                        ))
            finally:
                d.close()
            res["executions"] += 1


def run_unit(batch):
    res = dict(states=0, transitions=0, executions=0, evaluations=0, distinct=[], violations=[], samples=[], caps=[])
    viol: List[Dict[str, Any]] = []
    for kind, ks, ps in batch:
        run_case(kind, ks, ps, res, viol)
    res["violations"] = viol
    res["states"] = res["executions"]
    res["transitions"] = res["evaluations"]
    kind, ks, ps = batch[0]
    upper = [ps[0], ps[1]] if kind == "triple" else ([ps] if ps else [])
    res["samples"].append(dict(kind=kind, leaf_keys=list(ks), upper_keys=[list(u) for u in upper], events=EVENTS[:6] + ["..."],
                               expected={et: ref_fire([{k: 'ok' for k in ks}] + [{k: 'ok' for k in u} for u in upper], et) for et in EVENTS[:6]}))
    return res


def replay(payload):
    levels = payload["levels"]
    cfg = make_cfg(levels)
    h = Harness(cfg, with_plugin=False, extra_guards={"never": never})
    d = h.driver(payload["engine"])
    d.start()
    mark = d.rec.mark()
    d.send(payload["event"])
    fired = [e[1][2:] for e in d.rec.since(mark) if e[0] == "A"]
    want = ref_fire(levels, payload["event"])
    d.close()
    print(f"  levels={levels} event={payload['event']} expected={want} fired={fired}")
    got = fired[0] if len(fired) == 1 else (None if not fired else tuple(fired))
    if got != want:
        return [dict(signature="C20|replayed", what=f"expected {want}, fired {fired}")]
    return []
