"""C03 — exit, then transition, then entry actions; exactly-once accounting.

Every transition taken anywhere in the closure of the TREE(N) universal
machines and of the FOLLOW machines, on both interpreters, is judged by trace
predicates over the Recorder log (delimited by on_transition hooks).
"""
from __future__ import annotations

from typing import Any, Dict, List, Optional, Tuple

from .. import families as F
from ..core import Budget
from ..drivers import Harness
from ..e1 import bfs
from . import follow

LEVEL = "model_checking"
RULE = (
    "BFS to closure of every TREE(N) universal machine and FOLLOW machine on sync and async engines; every "
    "executed step (state, event) is a case; the oracle replays the marker log against a reference activity "
    "tracker (exit only active, enter only inactive, final set = configuration), checks exit<transition<entry "
    "order, ancestor/descendant order, event identity (type+payload) on every marker and the LCA frame "
    "condition; distinct_nontrivial = distinct (machine, engine, canonical state) triples"
)
BOUNDS = {
    "quick": "TREE(N<=4) + 9 parallel skeletons + 4 irregular larger trees (10-16 states) x {sync, async}; FOLLOW(N<=3) x {sync, async}; TIMED(N<=3) frame slice",
    "thorough": "TREE(N<=5) + 54 parallel skeletons + 10 irregular larger trees x {sync, async}; FOLLOW(N<=4) x {sync, async}; TIMED(N<=4) frame slice",
}
ASSUMPTIONS = [
    "for always/onDone follow-up microsteps only consistency of the event within one transition is required "
    "(the statement does not say which event an eventless follow-up is caused by)",
    "markers are the only user code; what a state's entry/exit list does is irrelevant to ordering",
]
ENGINES = ("sync", "async")
PAYLOAD_N = 7


def units(tier: str) -> List[Any]:
    n = 4 if tier == "quick" else 5
    us: List[Any] = [("tree", t) for t in F.big_skeletons(tier)]   # the large units first
    us += [("tree", t) for t in F.trees_upto(n)] + [("tree", t) for t in F.par_skeletons(tier)]
    us += [("follow", spec) for spec in follow.specs(3 if tier == "quick" else 4)]
    return us


def lca(byid: Dict[str, F.N], a: str, b: str) -> F.N:
    na, nb = byid[a], byid[b]
    anc_a = [na] + na.ancestors()
    anc_b = set(x.id for x in [nb] + nb.ancestors())
    for x in anc_a:
        if x.id in anc_b:
            return x
    raise AssertionError("no common ancestor")


def in_subtree(n: F.N, top: F.N) -> bool:
    return n is top or top in n.ancestors()


def split_segments(seg: List[tuple]):
    """Splits a step's log into per-transition groups ending with their TR hook.
    Each group carries the (type, n) of the event being processed (last EV hook)."""
    out = []
    cur: List[tuple] = []
    cur_ev = None
    for e in seg:
        if e[0] == "EV":
            if cur:
                out.append((None, cur, cur_ev))
                cur = []
            cur_ev = (e[1], e[2])
        elif e[0] == "A":
            cur.append(e)
        elif e[0] == "TR":
            out.append((e, cur, cur_ev))
            cur = []
    if cur:
        out.append((None, cur, cur_ev))
    return out


def check_step(byid, events, ev, conf_before, conf_after, seg, *, sent_type, strict_event=True):
    """Returns a list of (clause, detail)."""
    bad: List[Tuple[str, str]] = []
    active = set(conf_before)
    # --- activity tracking over the whole processed event (accounting) -------
    for e in seg:
        if e[0] != "A":
            continue
        kind, _, sid = e[1].partition(":")
        if kind == "ex":
            if sid not in active:
                bad.append(("exit-of-inactive-state", f"exit marker of {sid} while it is not active"))
            active.discard(sid)
        elif kind == "en":
            if sid in active:
                bad.append(("entered-while-active", f"entry marker of {sid} while it is already active"))
            active.add(sid)
    real_after = {s for s in conf_after if not byid[s].is_history}
    if active != real_after and not bad:
        bad.append(
            (
                "accounting(entries-exits!=activity-change)",
                f"markers imply {sorted(active)} but configuration is {sorted(real_after)}",
            )
        )
    # --- per transition order / identity / frame ----------------------------
    groups = split_segments(seg)
    first = True
    for tr, markers, cur_ev in groups:
        phases = []
        for m in markers:
            kind = m[1].partition(":")[0]
            phases.append({"ex": 0, "tr": 1, "en": 2}.get(kind, 1))
        if phases != sorted(phases):
            bad.append(("order(exit<transition<entry)", f"marker order {[m[1] for m in markers]}"))
        exs = [m[1][3:] for m in markers if m[1].startswith("ex:")]
        ens = [m[1][3:] for m in markers if m[1].startswith("en:")]
        for i, x in enumerate(exs):
            for y in exs[i + 1:]:
                if in_subtree(byid[y], byid[x]) and y != x:
                    bad.append(("exit-order(descendant-before-ancestor)", f"{x} exited before its descendant {y}"))
        for i, x in enumerate(ens):
            for y in ens[i + 1:]:
                if in_subtree(byid[x], byid[y]) and y != x:
                    bad.append(("entry-order(ancestor-before-descendant)", f"{x} entered before its ancestor {y}"))
        # event identity
        evs = {(m[2], m[3]) for m in markers}
        if tr is not None and cur_ev is not None and tr[1] == cur_ev[0]:
            want = cur_ev
            wrong = sorted({m[1] for m in markers if (m[2], m[3]) != want})
            if wrong:
                seen = sorted({(m[2], m[3]) for m in markers if (m[2], m[3]) != want}, key=repr)
                bad.append(
                    (
                        "event-identity",
                        f"markers {wrong} of the transition on {cur_ev[0]} received {seen} instead of {want}",
                    )
                )
        elif len(evs) > 1:
            bad.append(("event-identity(follow-up-inconsistent)", f"one transition, several events: {sorted(evs, key=repr)}"))
        # frame condition for universal transitions
        if tr is not None and tr[1] in events and events[tr[1]]["kind"] == "S":
            pass  # shared events: one event, several transitions with their own sources/targets - no single frame
        elif tr is not None and tr[1] in events and events[tr[1]].get("tgt"):
            e = events[tr[1]]
            top = lca(byid, e["src"], e["tgt"])
            t = byid[e["tgt"]]
            if t.is_history:
                top = lca(byid, e["src"], t.parent.id)
            outside = sorted({m[1] for m in markers if m[1][:3] in ("ex:", "en:") and not in_subtree(byid[m[1][3:]], top)})
            if outside:
                bad.append(("frame(outside-LCA-subtree-touched)", f"transition {tr[1]} {e['src']}->{e['tgt']} (LCA {top.id}) touched {outside}"))
        elif tr is not None and tr[1] in events:
            # targetless: nothing is entered or exited
            if any(m[1][:3] in ("ex:", "en:") for m in markers):
                bad.append(("frame(targetless-touched-states)", f"{[m[1] for m in markers]}"))
        first = False
    return bad


def explore_generic(cfg, nodes, events, *, label, replay, engines=ENGINES, shape_prefix="", guard_impls=None):
    byid = {n.id: n for n in nodes}
    res = dict(states=0, transitions=0, executions=0, distinct_count=0, violations=[], samples=[], caps=[])
    for engine in engines:
        h = Harness(cfg, with_plugin=True, extra_guards=guard_impls, yielding=(engine == "async"))
        viol: List[Dict[str, Any]] = []

        def flag(clause, detail, hist, ev, engine=engine):
            shape = ""
            if ev in events:
                e = events[ev]
                tk = byid[e["tgt"]].kind if e["tgt"] else "-"
                sk = byid[e["src"]].kind
                from .c01 import relation
                rel = relation(byid, e["src"], e["tgt"]) if e["tgt"] else "targetless"
                shape = f"|kind={e['kind']}|src={sk}|tgt={tk}|rel={rel}"
            sig = f"C03|{clause}|{engine}|{shape_prefix}{shape}"
            rp = dict(replay)
            rp.update(engine=engine, hist=hist + [ev])
            viol.append(dict(signature=sig, clause=clause,
                             what=f"{engine}: {clause}: {detail}; after {hist + [ev]} on {label}",
                             size=len(hist) + len(nodes) * 10, replay=rp))

        def on_state(d, hist):
            return F.legal_configuration(byid, d.observe()[0]) is None

        def on_step(d, hist, ev, mark, key_before):
            seg = d.rec.since(mark)
            for clause, detail in check_step(byid, events, ev, key_before[0], d.observe()[0], seg, sent_type=ev):
                flag(clause, detail, hist, ev)
            return True

        def menu(d):
            conf = set(d.observe()[0])
            if d.observe()[2] != "running":
                return []
            return [n for n, e in events.items() if e["src"] in conf and e["kind"] in ("T", "R", "N", "S")]

        def send(d, ev):
            d.send(ev, n=PAYLOAD_N)

        cl = bfs(h, engine, menu, on_state, on_step, send=send)
        res["states"] += cl.states
        res["transitions"] += cl.transitions
        res["executions"] += cl.executions
        res["distinct_count"] += cl.states
        if cl.nonterminating:
            res.setdefault("counters", {})["steps_over_action_budget_skipped"] = len(cl.nonterminating)
        res["violations"].extend(viol)
    res["samples"].append(dict(machine=label, events=len(events), states_total=res["states"], transitions_total=res["transitions"]))
    return res


def run_unit(unit):
    kind, payload = unit
    if kind == "tree":
        cfg, nodes, events = F.universal_config(payload, shared=True)
        return explore_generic(cfg, nodes, events, label=F.tree_str(payload), replay=dict(kind="tree", tree=payload))
    spec = payload
    cfg, nodes, events = follow.build(spec)
    tree, mode, x, y = spec
    return explore_generic(cfg, nodes, events, label=f"{F.tree_str(tree)}+{mode}({x},{y})",
                           replay=dict(kind="follow", spec=spec), shape_prefix=f"follow={mode}",
                           guard_impls={"armed": follow.armed_guard})


def replay(payload):
    from .c01 import _tuplify

    if payload["kind"] == "tree":
        cfg, nodes, events = F.universal_config(_tuplify(payload["tree"]), shared=True)
        gi = None
    else:
        cfg, nodes, events = follow.build(_tuplify(payload["spec"]))
        gi = {"armed": follow.armed_guard}
    byid = {n.id: n for n in nodes}
    h = Harness(cfg, with_plugin=True, extra_guards=gi, yielding=(payload["engine"] == "async"))
    d = h.driver(payload["engine"])
    d.start()
    out = []
    for ev in payload["hist"]:
        before = d.observe()[0]
        mark = d.rec.mark()
        d.send(ev, n=PAYLOAD_N)
        seg = d.rec.since(mark)
        print(f"  {ev}: {list(before)} -> {list(d.observe()[0])}")
        for e in seg:
            if e[0] in ("A", "TR", "EV"):
                print("     ", e[:4])
        for clause, detail in check_step(byid, events, ev, before, d.observe()[0], seg, sent_type=ev):
            out.append(dict(signature=f"C03|{clause}", what=detail))
    d.close()
    return out
