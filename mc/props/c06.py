"""C06 — guards gate transitions exactly.

Complete enumeration of guard formulas up to a nesting bound over named,
parameterised, stateIn, raising and missing atoms, in every operand spelling,
under `guard` and `cond`, in six positions, through the real send() on both
engines, against two-valued evaluation (raise -> false at the atom).
"""
from __future__ import annotations

import itertools
from typing import Any, Dict, List, Optional, Tuple

from xstate_statemachine import actions as A
from xstate_statemachine.exceptions import ImplementationMissingError

from .. import core
from ..drivers import Harness

LEVEL = "model_checking"
RULE = (
    "guard formulas = closure of {and, or, not} up to the depth bound over atoms {true, false, raising, missing, "
    "param-literal-true/false, param-callable, param-literal-0, param-computed-empty-object (guard with a default), stateIn active leaf (#abs), stateIn active ancestor (plain), stateIn "
    "suffix, stateIn inactive, stateIn inactive sibling whose key is a prefix of the active one's}; depth<=1 formulas are crossed with 3 operand spellings x {guard, cond} x 6 positions "
    "(sole, first-of-two, second-behind-false, parent-behind-false-child, choose branch, enqueueActions check); "
    "deeper formulas are evaluated in the sole position with spellings rotated; SELECTION-TIME: one event answered by three regions whose first transition falsifies the guards (stateIn, not-stateIn, context, and, or) of the other two - guards are judged when selected; each case = one machine + send(E) + "
    "probe; distinct_nontrivial = distinct (formula, spelling, key, position) cases"
)
BOUNDS = {
    "quick": "depth<=1 over 16 atoms fully crossed; depth 2 over 7 atoms in all positions (one key spelling each); depth-3 left/right chains over {T,F,R}",
    "thorough": "depth<=1 over 16 atoms fully crossed; depth 2 over 7 atoms in all positions, both key spellings (guard / cond); depth-3 left/right chains over {T,F,R}",
}
ASSUMPTIONS = [
    "a missing atom that cannot influence the formula's value may or may not be reported (short-circuiting is allowed)",
    "in choose / enqueueActions.check positions a decisive missing guard must select no branch and log an ERROR",
]
ENGINES = ("sync", "async")

ATOMS1 = ["T", "F", "R", "Rp", "M", "Pt", "Pf", "Pc", "Pz", "Pe", "Sa", "Sp", "Ss", "Si", "Sn", "Sx"]
ATOMS2 = ["T", "F", "R", "Rp", "M", "Sa", "Si"]
POSITIONS = ["sole", "first", "second", "parent", "second-p", "parent-p", "choose", "check"]


# ---------------------------------------------------------------- formulas
def atom_cfg(a: str) -> Any:
    return {
        "T": "gT",
        "F": "gF",
        "R": "gR",
        # the guard's computed params RAISE: the guard raised as far as the statement is concerned - it counts as false
        "Rp": {"type": "gP", "params": _raising_params},
        "M": "gMissing",
        "Pt": {"type": "gP", "params": {"v": True}},
        "Pf": {"type": "gP", "params": {"v": False}},
        "Pc": {"type": "gP", "params": _callable_params},
        # params that are falsy values are still params: a literal 0 and a computed empty object
        "Pz": {"type": "gZ", "params": 0},
        "Pe": {"type": "gE", "params": _empty_params},
        "Sa": {"type": "stateIn", "params": {"state": "#m.p.c1"}},
        "Sp": {"type": "stateIn", "params": {"state": "m.p"}},
        "Ss": {"type": "stateIn", "params": {"state": "p.c1"}},
        "Si": {"type": "stateIn", "params": {"state": "#m.q"}},
        # near miss: the inactive state m.p.c, whose key is a proper textual prefix of the active m.p.c1's
        "Sn": {"type": "stateIn", "params": {"state": "#m.p.c"}},
        # near miss at the other end: "1" is a textual SUFFIX of the active m.p.c1's id, not one of its segments
        "Sx": {"type": "stateIn", "params": {"state": "1"}},
    }[a]


def _empty_params(args):
    return {}


def _raising_params(args):
    raise KeyError("params callable raised")


def _callable_params(args):
    return {"v": True, "computed": True}


def atom_val(a: str) -> Any:
    return {"T": True, "F": False, "R": False, "Rp": False, "M": "M", "Pt": True, "Pf": False, "Pc": True, "Pz": True, "Pe": False,
            "Sa": True, "Sp": True, "Ss": True, "Si": False, "Sn": False, "Sx": False}[a]


def to_cfg(f, spelling: int) -> Any:
    if isinstance(f, str):
        return atom_cfg(f)
    op = f[0]
    kids = [to_cfg(k, spelling) for k in f[1:]]
    if op == "not":
        s = spelling % 3
        if s == 0:
            return {"type": "not", "children": kids}
        if s == 1:
            return {"type": "not", "params": {"guard": kids[0]}}
        return {"type": "not", "params": {"guards": kids}}
    s = spelling % 3
    if s == 0:
        return {"type": op, "children": kids}
    if s == 1:
        return {"type": op, "params": {"guards": kids}}
    return {"type": op, "params": {"children": kids}}


def evaluate(f, m_val: Dict[int, bool], counter: List[int]) -> bool:
    """Two-valued evaluation; each occurrence of M reads m_val[occurrence]."""
    if isinstance(f, str):
        v = atom_val(f)
        if v == "M":
            i = counter[0]
            counter[0] += 1
            return m_val[i]
        return v
    if f[0] == "not":
        return not evaluate(f[1], m_val, counter)
    vals = [evaluate(k, m_val, counter) for k in f[1:]]
    return all(vals) if f[0] == "and" else any(vals)


def count_m(f) -> int:
    if isinstance(f, str):
        return 1 if f == "M" else 0
    return sum(count_m(k) for k in f[1:])


def expected(f) -> Tuple[Optional[bool], bool]:
    """(value or None if it depends on a missing atom, has_missing)."""
    n = count_m(f)
    vals = set()
    for bits in itertools.product([False, True], repeat=n):
        vals.add(evaluate(f, dict(enumerate(bits)), [0]))
    if len(vals) == 1:
        return vals.pop(), n > 0
    return None, True


def formulas(atoms: List[str], depth: int) -> List[Any]:
    level: List[Any] = list(atoms)
    for _ in range(depth):
        nxt = list(atoms)
        nxt += [("not", x) for x in level]
        nxt += [("and", x, y) for x in level for y in level]
        nxt += [("or", x, y) for x in level for y in level]
        level = nxt
    # dedupe preserving order
    seen, out = set(), []
    for f in level:
        if f not in seen:
            seen.add(f)
            out.append(f)
    return out


def fstr(f) -> str:
    if isinstance(f, str):
        return f
    return f[0] + "(" + ",".join(fstr(k) for k in f[1:]) + ")"


# ---------------------------------------------------------------- machines
def make_cfg(gcfg: Any, key: str, pos: str) -> Dict[str, Any]:
    def tr(marker, g=None, target=None):
        t: Dict[str, Any] = {"actions": [marker]}
        if g is not None:
            t[key] = g
        if target:
            t["target"] = target
        return t

    c1: Dict[str, Any] = {"on": {}}
    p: Dict[str, Any] = {"initial": "c1", "states": {"c1": c1, "c2": {}, "c": {}}, "on": {}}
    root_on: Dict[str, Any] = {"PROBE": {"actions": ["mk:probe"]}}
    if pos == "sole":
        c1["on"]["E"] = tr("mk:fire", gcfg, "c2")
    elif pos == "first":
        c1["on"]["E"] = [tr("mk:fire", gcfg), tr("mk:other")]
    elif pos == "second":
        c1["on"]["E"] = [tr("mk:blocked", "gF"), tr("mk:fire", gcfg), tr("mk:other")]
    elif pos == "parent":
        c1["on"]["E"] = [tr("mk:blocked", "gF")]
        p["on"]["E"] = [tr("mk:fire", gcfg)]
        root_on["E"] = tr("mk:other")
    elif pos == "second-p":
        # the blocked candidate carries the SAME guard name as the parameterised atoms (gP), with params that make it false
        c1["on"]["E"] = [tr("mk:blocked", {"type": "gP", "params": {"v": False}}), tr("mk:fire", gcfg), tr("mk:other")]
    elif pos == "parent-p":
        c1["on"]["E"] = [tr("mk:blocked", {"type": "gP", "params": {"v": False}})]
        p["on"]["E"] = [tr("mk:fire", gcfg)]
        root_on["E"] = tr("mk:other")
    elif pos == "choose":
        c1["on"]["E"] = {"actions": [A.choose([{key: gcfg, "actions": ["mk:fire"]}, {"actions": ["mk:other"]}]), "mk:after"]}
    elif pos == "check":
        def cb(args, gcfg=gcfg):
            if args["check"](gcfg):
                args["enqueue"]("mk:fire")
            else:
                args["enqueue"]("mk:other")

        c1["on"]["E"] = {"actions": [A.enqueue_actions(cb), "mk:after"]}
    return {"id": "m", "initial": "p", "states": {"p": p, "q": {}}, "on": root_on}


def guard_impls(seen_params: List[Any]) -> Dict[str, Any]:
    def gT(ctx, ev):
        return True

    def gF(ctx, ev):
        return False

    def gR(ctx, ev):
        raise RuntimeError("guard raises")

    def gP(ctx, ev, params):
        seen_params.append(params)
        return bool(params["v"])

    def gZ(ctx, ev, params):
        # true exactly when the literal 0 was handed over
        return params == 0 and params is not None

    def gE(ctx, ev, params=None):
        # a guard with a default: false when the (empty) params object is handed over, true when it is withheld
        return params is None

    return {"gT": gT, "gF": gF, "gR": gR, "gP": gP, "gZ": gZ, "gE": gE}


def run_case(f, spelling: int, key: str, pos: str, res, viol) -> None:
    gcfg = to_cfg(f, spelling)
    want, has_m = expected(f)
    cfg = make_cfg(gcfg, key, pos)
    for engine in ENGINES:
        seen_params: List[Any] = []
        h = Harness(cfg, with_plugin=False, extra_guards=guard_impls(seen_params), budget=None)
        h.rec.with_conf = False
        h._kw["extra_actions"] = {"mk:fire": h.rec.marker("mk:fire"), "mk:other": h.rec.marker("mk:other")}
        d = h.driver(engine)
        try:
            err = d.start()
            if err is not None:
                raise AssertionError(f"start failed: {err!r}")
            core.LOG.reset()
            mark = d.rec.mark()
            err = d.send("E")
            fired = [e[1][3:] for e in d.rec.since(mark) if e[0] == "A"]
            errors = core.LOG.errors()
            status = d.observe()[2]
            mark2 = d.rec.mark()
            perr = d.send("PROBE")
            probe_ok = perr is None and [e[1] for e in d.rec.since(mark2) if e[0] == "A"] == ["mk:probe"]
            res["evaluations"] += 1
            problems = []
            took = "fire" in fired
            alt = "other" in fired
            missing_reported = isinstance(err, ImplementationMissingError) or any(
                "not implemented" in m or "ImplementationMissing" in m for m in errors
            )
            # logged reports carry the exception in the record's exc_info
            missing_reported = missing_reported or any(
                r.exc_info and isinstance(r.exc_info[1], ImplementationMissingError) for r in core.LOG.records
            )
            if want is None:
                # decisive missing atom: must be reported, never decided either way
                if pos in ("choose", "check"):
                    if took or alt:
                        problems.append(("missing-guard-decided", f"branch markers {fired}"))
                    elif not errors:
                        problems.append(("missing-guard-not-reported", "no ERROR record"))
                else:
                    if took or alt:
                        problems.append(("missing-guard-decided", f"markers {fired}"))
                    if not missing_reported:
                        problems.append(("missing-guard-not-reported", f"error={err!r} log={errors[:1]}"))
            else:
                acceptable_error = has_m and missing_reported and not took and not alt
                if not acceptable_error:
                    if err is not None:
                        problems.append(("unexpected-exception", repr(err)))
                    if took != want:
                        problems.append(("guard-value", f"formula value {want} but fired={fired}"))
                    if (not want) and not alt and pos != "sole":
                        problems.append(("fallback-not-eligible", f"guard false but next candidate/ancestor did not run: {fired}"))
                    if want and alt:
                        problems.append(("both-fired", f"{fired}"))
                    if "blocked" in fired:
                        problems.append(("false-guard-fired", f"{fired}"))
            if status != "running":
                problems.append(("interpreter-disturbed", f"status {status}"))
            if not probe_ok:
                problems.append(("interpreter-disturbed", f"probe event not handled normally ({perr!r})"))
            # params delivery
            for sp in seen_params:
                if not isinstance(sp, dict) or "v" not in sp:
                    problems.append(("params-not-delivered", f"guard received {sp!r}"))
            for clause, detail in problems:
                viol.append(dict(
                    signature=f"C06|{clause}|pos={pos}|key={key}",
                    clause=clause,
                    what=f"{engine}: {clause}: {detail}; formula {fstr(f)} spelling {spelling % 3} key '{key}' position {pos}",
                    size=len(fstr(f)),
                    replay=dict(formula=f, spelling=spelling, key=key, pos=pos),
                ))
        finally:
            d.close()
        res["executions"] += 1


def units(tier: str) -> List[Any]:
    cases: List[Any] = []
    f1 = formulas(ATOMS1, 1)
    for f in f1:
        for sp in range(3):
            for key in ("guard", "cond"):
                for pos in POSITIONS:
                    cases.append((f, sp, key, pos))
    f2 = [f for f in formulas(ATOMS2, 2) if f not in set(f1)]
    for i, f in enumerate(f2):
        for pos in POSITIONS:
            keys2 = ("guard", "cond") if tier == "thorough" else ("guard" if i % 2 == 0 else "cond",)
            for key in keys2:
                cases.append((f, i, key, pos))
    if True:
        base = ["T", "F", "R"]
        chains = []
        for ops in itertools.product(["and", "or"], repeat=3):
            for leaves in itertools.product(base, repeat=4):
                l = leaves[0]
                for op, x in zip(ops, leaves[1:]):
                    l = (op, l, x)
                chains.append(l)
                r = leaves[-1]
                for op, x in zip(ops, reversed(leaves[:-1])):
                    r = (op, x, r)
                chains.append(r)
                chains.append(("not", l))
        for i, f in enumerate(chains):
            cases.append((f, i, "guard", "sole"))
    size = 150
    return [cases[i:i + size] for i in range(0, len(cases), size)] + ["selection-time"]


SEL_GUARDS = {
    # guards of the LATER regions, all true in the configuration / context the event arrives in and all falsified by the
    # transition the FIRST region takes in the same step (it leaves A.a1 and sets ctx.claimed)
    "stateIn": {"type": "stateIn", "params": {"state": "#m.A.a1"}},
    "not-stateIn": {"type": "not", "children": [{"type": "stateIn", "params": {"state": "#m.A.a2"}}]},
    "context": "unclaimed",
    "and": {"type": "and", "children": ["unclaimed", {"type": "stateIn", "params": {"state": "#m.A.a1"}}]},
    "or-not": {"type": "or", "children": [{"type": "not", "children": ["gT"]}, "unclaimed"]},
}


def run_selection_time() -> Dict[str, Any]:
    """A guard is judged when its transition is SELECTED: one event, three regions, the first region's transition changes
    exactly what the guards of the other two regions look at.  Every guard x {guard, cond} x engine: all three regions
    move, the fallback candidate behind the guarded one does not run."""
    res = dict(states=0, transitions=0, executions=0, evaluations=0, distinct_count=0, violations=[], samples=[], caps=[])
    for gname, gcfg in SEL_GUARDS.items():
        for key in ("guard", "cond"):
            cfg = {
                "id": "m", "type": "parallel", "context": {"claimed": 0},
                "states": {
                    "A": {"initial": "a1", "states": {"a1": {"on": {"E": {"target": "a2", "actions": [A.assign({"claimed": 1}), "mk:A"]}}}, "a2": {}}},
                    "B": {"initial": "b1", "states": {"b1": {"on": {"E": {"target": "b2", key: gcfg, "actions": ["mk:B"]}}}, "b2": {}}},
                    "C": {"initial": "c1", "states": {"c1": {"on": {"E": [{"target": "c2", key: gcfg, "actions": ["mk:C"]},
                                                                          {"target": "c3", "actions": ["mk:Cfallback"]}]}}, "c2": {}, "c3": {}}},
                },
            }
            for engine in ENGINES:
                impls = guard_impls([])
                impls["unclaimed"] = lambda ctx, ev: ctx["claimed"] == 0
                h = Harness(cfg, with_plugin=False, extra_guards=impls, budget=None)
                h._kw["extra_actions"] = {n: h.rec.marker(n) for n in ("mk:A", "mk:B", "mk:C", "mk:Cfallback")}
                d = h.driver(engine)
                try:
                    d.start()
                    err = d.send("E")
                    fired = sorted(e[1] for e in d.rec.log if e[0] == "A")
                    conf = [c for c in d.observe()[0] if c.count(".") == 2]
                    res["executions"] += 1
                    res["evaluations"] += 1
                    res["distinct_count"] += 1
                    if err is not None or fired != ["mk:A", "mk:B", "mk:C"] or sorted(conf) != ["m.A.a2", "m.B.b2", "m.C.c2"]:
                        res["violations"].append(dict(
                            signature=f"C06|guard-not-judged-at-selection-time|{engine}|key={key}", clause="guard-value",
                            what=f"{engine}: guards true when the event arrived ({gname} under '{key}') but the step fired {fired} and ended in {conf} "
                                 f"(error {err!r}): a guard was re-read after an earlier transition of the same step",
                            size=1, replay=dict(kind="selection-time")))
                finally:
                    d.close()
    res["states"] = res["executions"]
    res["transitions"] = res["evaluations"]
    res["samples"].append(dict(kind="selection-time", guards=list(SEL_GUARDS), cases=res["executions"]))
    return res


def run_unit(batch):
    if batch == "selection-time":
        return run_selection_time()
    res = dict(states=0, transitions=0, executions=0, evaluations=0, distinct_count=0, violations=[], samples=[], caps=[])
    viol: List[Dict[str, Any]] = []
    for f, sp, key, pos in batch:
        run_case(f, sp, key, pos, res, viol)
    res["distinct_count"] = len(batch)
    res["violations"] = viol
    res["states"] = res["executions"]
    res["transitions"] = res["evaluations"]
    f, sp, key, pos = batch[0]
    res["samples"].append(dict(formula=fstr(f), spelling=sp % 3, key=key, position=pos, reference_value=expected(f)[0]))
    return res


def _tup(x):
    if isinstance(x, list):
        return tuple(_tup(i) for i in x)
    return x


def replay(payload):
    if payload.get("kind") == "selection-time":
        r = run_selection_time()
        for v in r["violations"]:
            print("  ", v["what"][:300])
        return r["violations"]
    res = dict(states=0, transitions=0, executions=0, evaluations=0)
    viol: List[Dict[str, Any]] = []
    run_case(_tup(payload["formula"]), payload["spelling"], payload["key"], payload["pos"], res, viol)
    for v in viol:
        print("  ", v["what"])
    return viol
