"""FEATURE machines: small hand-written machines that combine the built-in
action creators, guards, outputs and sync services both engines support.
Every context is bounded so that BFS closes."""
from __future__ import annotations

from typing import Any, Dict, List

from xstate_statemachine import actions as A


def _inc(key, bound):
    def f(args):
        return {key: min(bound, args["context"].get(key, 0) + 1)}

    return f


def _g_lt(key, bound):
    def g(ctx, ev, params=None):
        return ctx.get(key, 0) < bound

    return g


def _g_even(ctx, ev, params=None):
    return ctx.get("k", 0) % 2 == 0


def counter() -> Dict[str, Any]:
    cfg = {
        "id": "m",
        "initial": "a",
        "context": {"k": 0, "seen": []},
        "states": {
            "a": {
                "entry": ["mk:en_a"],
                "exit": ["mk:ex_a"],
                "on": {
                    "INC": {"guard": "lt2", "actions": [A.assign(_inc("k", 2)), "mk:inc"]},
                    "RESET": {"actions": [A.assign({"k": 0})]},
                    "GO": {
                        "target": "b",
                        "actions": [
                            A.choose(
                                [
                                    {"guard": "even", "actions": ["mk:even", A.assign({"par": "even"})]},
                                    {"actions": ["mk:odd", A.assign({"par": "odd"})]},
                                ]
                            ),
                            "mk:after_choose",
                        ],
                    },
                },
            },
            "b": {
                "entry": [
                    "mk:en_b",
                    A.pure(lambda args: ["mk:p1", A.assign({"viaPure": args["context"].get("k")}), "mk:p2"]),
                    A.enqueue_actions(_enq),
                    "mk:en_b_last",
                ],
                "exit": ["mk:ex_b"],
                "on": {"BACK": {"target": "a", "actions": ["mk:back"]}, "STAY": {"actions": ["mk:stay"]}},
            },
        },
    }
    return dict(cfg=cfg, events=["INC", "RESET", "GO", "BACK", "STAY"],
                guards={"lt2": _g_lt("k", 2), "even": _g_even}, markers=["mk:p1", "mk:p2", "mk:q1", "mk:q2"])


def _enq(args):
    enq = args["enqueue"]
    enq("mk:q1")
    if args["check"]("even"):
        enq.assign({"q": "even"})
    else:
        enq.assign({"q": "odd"})
    enq("mk:q2")


def raiser() -> Dict[str, Any]:
    cfg = {
        "id": "m",
        "initial": "a",
        "context": {"n": 0},
        "states": {
            "a": {
                "entry": ["mk:en_a", A.raise_("KICK")],
                "on": {
                    "KICK": {"target": "b", "actions": ["mk:kick"]},
                    "E": {"actions": [A.raise_({"type": "F", "n": 9}), "mk:e", A.raise_("G")]},
                    "F": {"actions": ["mk:f"]},
                    "G": {"actions": ["mk:g"]},
                },
            },
            "b": {
                "entry": ["mk:en_b"],
                "always": [{"guard": "lt1", "target": "c", "actions": [A.assign(_inc("n", 1)), "mk:alw"]}],
                "on": {"E": {"target": "a", "actions": [A.assign({"n": 0}), "mk:toa"]}},
            },
            "c": {
                "entry": ["mk:en_c", A.raise_("E")],
                "on": {"E": {"target": "b", "actions": ["mk:c_e"]}},
            },
        },
    }
    return dict(cfg=cfg, events=["E", "F", "G", "KICK"], guards={"lt1": _g_lt("n", 1)})


def outputs() -> Dict[str, Any]:
    cfg = {
        "id": "m",
        "initial": "w",
        "context": {"got": None},
        "output": {"machine": "out"},
        "states": {
            "w": {
                "initial": "s1",
                "states": {
                    "s1": {"on": {"N": "s2", "F": "fin"}},
                    "s2": {"on": {"N": "fin"}},
                    "fin": {"type": "final", "output": {"inner": 1}, "entry": ["mk:en_fin"]},
                },
                "onDone": {
                    "target": "p",
                    "actions": [A.assign(lambda a: {"got": getattr(a["event"], "data", None)}), "mk:w_done"],
                },
            },
            "p": {
                "type": "parallel",
                "states": {
                    "r1": {"initial": "x", "states": {"x": {"on": {"A": "xf"}}, "xf": {"type": "final", "output": "r1out"}}},
                    "r2": {"initial": "y", "states": {"y": {"on": {"B": "yf", "A": {"actions": ["mk:r2_a"]}}}, "yf": {"type": "final", "output": "r2out", "on": {"U": "y"}}}},
                },
                "onDone": {"target": "end", "actions": [A.assign(lambda a: {"got2": getattr(a["event"], "data", None)}), "mk:p_done"]},
                "on": {"N": {"actions": ["mk:p_n"]}},
            },
            "end": {"type": "final", "output": {"state": "out"}, "entry": ["mk:en_end"]},
        },
    }
    return dict(cfg=cfg, events=["N", "F", "A", "B", "U"])


def outputs_nomachine() -> Dict[str, Any]:
    d = outputs()
    d["cfg"].pop("output")
    return d


def _svc_ok(interp, ctx, ev):
    return {"v": ctx.get("k", 0) + 1}


def _svc_bad(interp, ctx, ev):
    raise ValueError("svc failed")


def services() -> Dict[str, Any]:
    cfg = {
        "id": "m",
        "initial": "idle",
        "context": {"k": 0, "res": None},
        "states": {
            "idle": {"on": {"OK": "ok", "BAD": "bad", "UNH": "unh"}},
            "ok": {
                "entry": ["mk:en_ok"],
                "invoke": {"src": "svcOk", "input": {"a": 1},
                           "onDone": {"target": "idle", "actions": [A.assign(lambda a: {"res": a["event"].data}), "mk:ok_done"]}},
            },
            "bad": {
                "invoke": {"src": "svcBad",
                           "onError": {"target": "idle", "actions": [A.assign(lambda a: {"res": type(a["event"].data).__name__}), "mk:bad_err"]}},
            },
            "unh": {"entry": ["mk:en_unh"], "invoke": {"src": "svcBad"}, "on": {"OK": "ok"}},
        },
    }
    return dict(cfg=cfg, events=["OK", "BAD", "UNH"], services={"svcOk": _svc_ok, "svcBad": _svc_bad}, pure=False)


def par_assign() -> Dict[str, Any]:
    cfg = {
        "id": "m",
        "type": "parallel",
        "context": {"log": ""},
        "states": {
            "r1": {"initial": "a", "states": {
                "a": {"on": {"E": {"target": "b", "actions": [A.assign(lambda a: {"log": (a["context"]["log"] + "1")[-3:]}), "mk:r1"]}}},
                "b": {"on": {"E": {"target": "a", "actions": [A.assign(lambda a: {"log": (a["context"]["log"] + "2")[-3:]}), "mk:r1b"]}}},
            }},
            "r2": {"initial": "c", "states": {
                "c": {"on": {"E": {"target": "d", "actions": [A.assign(lambda a: {"log": (a["context"]["log"] + "3")[-3:]}), "mk:r2"]},
                             "X": {"actions": ["mk:x"]}}},
                "d": {"entry": ["mk:en_d"], "on": {"E": {"target": "c", "actions": ["mk:r2d"]}}},
            }},
        },
        "on": {"E": {"actions": ["mk:root_e"]}, "Z": {"actions": [A.assign({"log": ""})]}},
    }
    return dict(cfg=cfg, events=["E", "X", "Z"])


def _expander(kind: str, bound: int):
    """Entry of `loop` expands into (assign k+1, marker, the same expansion again) while k < bound; bound=None never
    stops by itself and is cut by the engine's expansion-depth guard - at the same point on every engine."""
    def more(ctx):
        if ctx.get("k", 0) > 500:
            # every engine cuts a self-enqueueing expansion after a few dozen levels; far beyond that it is running away
            raise RuntimeError(f"nested action expansion reached level {ctx.get('k')} and was never cut")
        return bound is None or ctx.get("k", 0) < bound

    def bump(args):
        return {"k": args["context"].get("k", 0) + 1}

    def again(args):
        return [A.assign(bump), "mk:step", nested()] if more(args["context"]) else []

    def enq(args):
        if more(args["context"]):
            args["enqueue"].assign(bump)
            args["enqueue"]("mk:step")
            args["enqueue"](nested())

    def nested():
        if kind == "pure":
            return A.pure(again)
        if kind == "choose":
            return A.choose([{"guard": "more", "actions": [A.assign(bump), "mk:step", A.pure(lambda a: [nested()])]}])
        return A.enqueue_actions(enq)

    def build() -> Dict[str, Any]:
        cfg = {
            "id": "m", "initial": "idle", "context": {"k": 0},
            "states": {
                "idle": {"on": {"GO": "loop"}},
                "loop": {"entry": ["mk:en_loop", nested(), "mk:en_loop_last"],
                         "on": {"BACK": {"target": "idle", "actions": [A.assign({"k": 0})]}, "AGAIN": {"actions": [A.assign({"k": 0}), nested()]}}},
            },
        }
        return dict(cfg=cfg, events=["GO", "BACK", "AGAIN"], guards={"more": lambda ctx, ev, params=None: more(ctx)},
                    markers=["mk:step"])

    return build


_ALL = {
    "counter": counter,
    "raiser": raiser,
    "outputs": outputs,
    "outputs_nomachine": outputs_nomachine,
    "services": services,
    "par_assign": par_assign,
}
for _k in ("pure", "choose", "enqueue"):
    _ALL[f"expand_{_k}_3"] = _expander(_k, 3)
    _ALL[f"expand_{_k}_inf"] = _expander(_k, None)


def names() -> List[str]:
    return list(_ALL)


def get(name: str) -> Dict[str, Any]:
    return _ALL[name]()
