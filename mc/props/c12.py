"""C12 — snapshots are faithful, isolated resume points.

(A) For every reachable canonical state of TREE(N) universal machines (history,
    final, parallel; context changed by assign) and of an ACTOR machine, on both
    engines: restore(snapshot(s)) must be canonically equal, re-snapshot must
    reproduce the snapshot, and for EVERY event the restored interpreter and the
    original must step to the same canonical state with the same action trace
    (one-step bisimulation at every reachable state = every crash point), also
    after a second save/restore cycle.  Snapshots are valid JSON and unaffected
    by later execution.
(B) Corruptions of snapshots taken at several states: every proper prefix (torn
    write), every key deleted, every value replaced by each wrong JSON type,
    every state id replaced by an unknown one.
"""
from __future__ import annotations

import copy
import json
from typing import Any, Dict, List, Optional, Tuple

from xstate_statemachine import Interpreter, MachineLogic, SyncInterpreter, create_machine
from xstate_statemachine import actions as A
from xstate_statemachine.exceptions import XStateMachineError

from .. import core
from .. import families as F
from ..core import Budget
from ..drivers import AsyncDriver, Harness, SyncDriver, canon_interp
from ..e1 import bfs, build
from ..recorder import norm_ev_type

LEVEL = "model_checking"
RULE = (
    "(A) BFS to closure of TREE(N) universal machines + INC (assign) and of the ACTOR machine (its children reach a top-level final state after two pokes and stay registered where the engine keeps them) and the ACTORF machine (a child whose machine definition a factory picks from the parent's context) (spawnChild with systemId, "
    "sendTo, child with its own states) on both engines; at EVERY reachable state: restore(snapshot) canonically equal, "
    "re-snapshot identical, valid JSON, snapshot dict unchanged after the source runs on, and for every event of the "
    "alphabet step(original) == step(restored) == step(restored twice) on canonical state and action trace; (B) all "
    "single-point corruptions of snapshot texts (every prefix, every key deleted, every value x 6 wrong JSON types, every "
    "state id unknown, the id lists emptied singly / together / with the other one missing) must raise an XStateMachineError or leave an interpreter equal to the uncorrupted restore; "
    "distinct_nontrivial = distinct (machine, engine, state) crash points + distinct corruptions"
)
BOUNDS = {
    "quick": "TREE(N<=3) + a two-history-owner tree + 3 history-in-parallel trees with reversed key order and again under the dotted machine id m.v2 + ACTOR, ACTORF and ACTORG (grandchild with a systemId) machines, 30 virtual ms after every operation; corruptions of 3 base snapshots",
    "thorough": "TREE(N<=4) + a two-history-owner tree + reversed-key and dotted-machine-id trees + ACTOR, ACTORF and ACTORG machines; corruptions of 6 base snapshots",
}
ASSUMPTIONS = [
    "pending timers and in-flight services are excluded (documented); machines here have none",
    "a corruption that is accepted must yield an interpreter canonically equal to the uncorrupted restore (harmless) - "
    "anything else is 'silently accepted'",
]
ENGINES = ("sync", "async")
WRONG = [None, True, 0, "x", [1], {"a": 1}]


# ------------------------------------------------------------------ machines
def kid_machine():
    return create_machine(
        {"id": "kid", "initial": "p", "context": {"n": 0},
         "states": {"p": {"on": {"POKE": {"target": "q", "actions": [A.assign(lambda a: {"n": (a["context"]["n"] + 1) % 2})]}}},
                    "q": {"on": {"POKE": "f"}}, "f": {"type": "final", "output": {"r": 1}}}},
        logic=MachineLogic(),
    )


def kid_variant(k: int):
    """Two child definitions with the same state ids and different behaviour; which one a child runs on is chosen by a
    factory from the PARENT's context at spawn time - and again when the actor is rebuilt from a snapshot."""
    on_poke = {"target": "q"} if k == 0 else {"actions": [A.assign(lambda a: {"n": (a["context"]["n"] + 1) % 2})]}
    return create_machine(
        {"id": "kidf", "initial": "p", "context": {"n": 0},
         "states": {"p": {"on": {"POKE": on_poke}}, "q": {"on": {"POKE": "p"}}}},
        logic=MachineLogic(),
    )


_KID_VARIANTS: Dict[int, Any] = {}


def kid_factory(interp, ctx, ev):
    k = ctx.get("mode", 0)
    if k not in _KID_VARIANTS:
        _KID_VARIANTS[k] = kid_variant(k)
    return _KID_VARIANTS[k]


def actor_cfg() -> Dict[str, Any]:
    return {
        "id": "m", "initial": "a", "context": {"k": 0},
        "states": {
            "a": {"on": {"GO": "b"}},
            "b": {"initial": "b1", "states": {"b1": {"on": {"N": "b2"}}, "b2": {}, "h": {"type": "history"}},
                  "on": {"BACK": "a"}},
        },
        "on": {
            # (explicit ids in a proper-prefix relation, 'k' / 'k2', each with a systemId of its own)
            "SPAWN": {"actions": [A.spawn_child("kid", actor_id="k", system_id="sys1"), "tr:spawn"]},
            "SPAWN2": {"actions": [A.spawn_child("kid", actor_id="k2", system_id="sys2"), "tr:spawn2"]},
            "PING": {"actions": [A.send_to("sys1", "POKE"), "tr:ping"]},
            "PING2": {"actions": [A.send_to("sys2", "POKE"), "tr:ping2"]},
            "KILL": {"actions": [A.stop_child("k"), "tr:kill"]},

            "HIST": {"target": "#m.b.h"},
            "INC": {"actions": [A.assign(lambda a: {"k": (a["context"]["k"] + 1) % 2})]},
        },
    }


def actorf_cfg() -> Dict[str, Any]:
    """The child's definition is picked by a factory from the parent's context key `mode`, which can only change while no
    child exists (so the snapshot's context determines the definition the child was spawned on)."""
    return {
        "id": "m", "initial": "a", "context": {"mode": 0, "sp": False},
        "states": {"a": {}},
        "on": {
            "MODE": {"guard": "unspawned", "actions": [A.assign(lambda a: {"mode": 1 - a["context"]["mode"]}), "tr:mode"]},
            "SPAWN3": {"guard": "unspawned", "actions": [A.spawn_child("kidf", actor_id="k3", system_id="sys3"), A.assign({"sp": True}), "tr:spawn3"]},
            "PING3": {"actions": [A.send_to("sys3", "POKE"), "tr:ping3"]},
        },
    }


def kidg_machine():
    """A child that spawns a GRANDCHILD registering a systemId of its own (the registry is global to the hierarchy)."""
    grand = create_machine(
        {"id": "grand", "initial": "p", "context": {"n": 0},
         "states": {"p": {"on": {"POKE": {"actions": [A.assign(lambda a: {"n": (a["context"]["n"] + 1) % 2})]}}}}},
        logic=MachineLogic())
    return create_machine(
        {"id": "kidg", "initial": "x",
         "states": {"x": {"on": {"GRAND": {"actions": [A.spawn_child("grand", actor_id="g", system_id="sysg")]}}}}},
        logic=MachineLogic(services={"grand": grand}))


def actorg_cfg() -> Dict[str, Any]:
    return {"id": "m", "initial": "a", "states": {"a": {}},
            "on": {"SPAWNG": {"actions": [A.spawn_child("kidg", actor_id="k1"), "tr:spawng"]},
                   "GRAND": {"actions": [A.send_to("k1", "GRAND"), "tr:grand"]},
                   "PINGG": {"actions": [A.send_to("sysg", "POKE"), "tr:pingg"]}}}


ACTORG_EVENTS = ["SPAWNG", "GRAND", "PINGG"]
ACTORF_EVENTS = ["MODE", "SPAWN3", "PING3"]
ACTOR_EVENTS = ["GO", "N", "BACK", "SPAWN", "SPAWN2", "PING", "PING2", "KILL", "HIST", "INC"]


def restore(engine: str, h: Harness, snap: str, loop=None):
    """Returns a driver around from_snapshot(snap) (started for async)."""
    if engine == "sync":
        interp = SyncInterpreter.from_snapshot(snap, h.machine())
        return SyncDriver(h, interp=h._attach(interp))
    d = AsyncDriver(h, interp=None)
    with d.loop.active():
        d.interp = h._attach(Interpreter.from_snapshot(snap, h.machine()))
    err = d.start()
    if err is not None:
        raise err
    return d


def step_trace(d, ev) -> tuple:
    mark = d.rec.mark()
    err = d.send(ev)
    acts = tuple((e[1], norm_ev_type(e[2])) for e in d.rec.since(mark) if e[0] == "A")
    return (canon_interp(d.interp), acts, type(err).__name__ if err else None)


_UUID_RE = __import__("re").compile(r"[0-9a-f]{8}-[0-9a-f]{4}-[0-9a-f]{4}-[0-9a-f]{4}-[0-9a-f]{12}|uuid#\d+")


def strip_uuid_text(text: str) -> str:
    return _UUID_RE.sub("*", text)


def only_unswept_finished_children(orig: tuple, rest: tuple) -> bool:
    """True when two step traces differ ONLY in that the restored interpreter still lists child actors that have finished
    (status done / stopped) - with their systemIds - which the uninterrupted run has already unregistered."""
    (so, ao, eo), (sr, ar, er) = orig, rest
    if ao != ar or eo != er or so[:6] != sr[:6]:
        return False
    act_o, act_r = dict(so[6]), dict(sr[6])
    extra = {aid: c for aid, c in act_r.items() if aid not in act_o}
    if not extra or any(act_r.get(a) != c for a, c in act_o.items()) or any(c[2] not in ("done", "stopped") for c in extra.values()):
        return False
    sys_o, sys_r = dict(so[7]), dict(sr[7])
    return all(sys_r.get(k) == v for k, v in sys_o.items()) and all(v in extra for k, v in sys_r.items() if k not in sys_o)


def explore_machine(cfg, events: List[str], label: str, services=None, max_depth_actor: Optional[int] = None, guards=None, actions=None):
    res = dict(states=0, transitions=0, executions=0, distinct_count=0, violations=[], samples=[], caps=[])
    for engine in ENGINES:
        # (30 virtual ms pass after every operation: the runner thread of a superseded or stopped actor gets past its poll
        # and runs its clean-up before the snapshot is taken)
        h = Harness(cfg, with_plugin=True, services=services, threads=True, extra_guards=guards, extra_actions=actions, tick=0.03)
        h2 = Harness(cfg, with_plugin=True, services=services, threads=True, extra_guards=guards, extra_actions=actions, tick=0.03)
        viol: List[Dict[str, Any]] = []

        def flag(clause, detail, hist, ev=None):
            viol.append(dict(signature=f"C12|{clause}|{engine}", clause=clause,
                             what=f"{engine}: {clause}: {detail}; history {hist}{' then ' + ev if ev else ''} on {label}",
                             size=len(hist), replay=dict(kind="bisim", label=label, engine=engine, hist=hist, ev=ev)))

        def on_state(d, hist):
            i = d.interp
            try:
                snap = i.get_snapshot()
                parsed = json.loads(snap)
            except Exception as exc:  # noqa: BLE001
                flag("snapshot-not-valid-json", repr(exc), hist)
                return False
            persisted = i.get_persisted_snapshot()
            frozen = copy.deepcopy(persisted)
            if json.loads(json.dumps(persisted, default=str)) != parsed:
                flag("get_snapshot-differs-from-persisted", "", hist)
            # --- restore
            try:
                r = restore(engine, h2, snap)
            except Exception as exc:  # noqa: BLE001
                flag("restore-raised", repr(exc), hist)
                return True
            try:
                want = canon_interp(i)
                got = canon_interp(r.interp)
                if want != got:
                    flag("restored-state-differs", f"original {want} restored {got}", hist)
                again = json.loads(r.interp.get_snapshot())
                if again != parsed:
                    diff = [k for k in parsed if parsed.get(k) != again.get(k)]
                    flag("re-snapshot-differs", f"keys {diff}: {[(parsed.get(k), again.get(k)) for k in diff][:2]}", hist)
                snap2 = r.interp.get_snapshot()
            finally:
                r.close()
            res["executions"] += 1
            # --- one-step agreement for every event (fresh copies: stepping mutates)
            for ev in events:
                d1, _ = build(h2, engine, hist)
                try:
                    t_orig = step_trace(d1, ev)
                finally:
                    d1.close()
                r1 = restore(engine, h2, snap)
                try:
                    t_rest = step_trace(r1, ev)
                finally:
                    r1.close()
                r2 = restore(engine, h2, snap2)
                try:
                    t_rest2 = step_trace(r2, ev)
                finally:
                    r2.close()
                res["executions"] += 3
                res["transitions"] += 1
                if t_orig != t_rest and only_unswept_finished_children(t_orig, t_rest):
                    flag("restored-child-not-unregistered-when-it-finishes", f"event {ev}: original {t_orig} restored {t_rest}", hist, ev)
                elif t_orig != t_rest:
                    flag("continuation-differs", f"event {ev}: original {t_orig} restored {t_rest}", hist, ev)
                elif t_orig != t_rest2:
                    flag("continuation-differs-after-two-cycles", f"event {ev}: original {t_orig} restored twice {t_rest2}", hist, ev)
            # --- isolation: run the source on, the snapshot taken earlier must not change
            for ev in events:
                d.send(ev)
            if persisted != frozen:
                flag("snapshot-changed-by-later-execution", f"{frozen} -> {persisted}", hist)
            return True

        def on_step(d, hist, ev, mark, key_before):
            return True

        def menu(d):
            if d.observe()[2] != "running":
                return []
            if max_depth_actor is not None:
                return events
            return events

        def canon(d):
            # two histories are merged only when their SNAPSHOTS agree as well (generated ids stripped): the snapshot is
            # what the restored futures depend on, and it holds fields the live canonical state does not (actor sources)
            try:
                snap_key = strip_uuid_text(d.interp.get_snapshot())
            except Exception as exc:  # noqa: BLE001
                snap_key = repr(exc)
            return (d.observe(), snap_key)

        try:
            cl = bfs(h, engine, menu, on_state, on_step, max_states=3000, canon=canon)
        except Budget:
            continue
        res["states"] += cl.states
        res["transitions"] += cl.transitions
        res["executions"] += cl.executions
        res["distinct_count"] += cl.states
        if cl.capped:
            res["caps"].append("max_states 3000")
        res["violations"].extend(viol)
    res["samples"].append(dict(machine=label, events=len(events), crash_points=res["states"]))
    return res


# ------------------------------------------------------------------ corruptions
def corruptions(obj: Any, path=()) -> List[Tuple[tuple, str, Any]]:
    """(path, kind, new_value_or_marker) for every single-point corruption."""
    out: List[Tuple[tuple, str, Any]] = []
    if isinstance(obj, dict):
        for k, v in obj.items():
            out.append((path + (k,), "delete", None))
            for w in WRONG:
                if type(w) is type(v) and not isinstance(v, (dict, list)):
                    continue
                if isinstance(v, dict) and isinstance(w, dict):
                    continue
                if isinstance(v, list) and isinstance(w, list):
                    continue
                if v is None and w is None:
                    continue
                out.append((path + (k,), "type", w))
            out.extend(corruptions(v, path + (k,)))
    elif isinstance(obj, list):
        for i, v in enumerate(obj):
            if isinstance(v, str):
                out.append((path + (i,), "unknown-id", v + "_nope"))
            else:
                out.extend(corruptions(v, path + (i,)))
    return out


def apply_corruption(obj: Any, path: tuple, kind: str, val: Any) -> Any:
    obj = copy.deepcopy(obj)
    cur = obj
    for p in path[:-1]:
        cur = cur[p]
    if kind == "delete":
        del cur[path[-1]]
    else:
        cur[path[-1]] = val
    return obj


REQUIRED = {("status",), ("context",)}


def run_corruptions(base_hists: List[List[str]]) -> Dict[str, Any]:
    res = dict(states=0, transitions=0, executions=0, evaluations=0, distinct_count=0, violations=[], samples=[], caps=[])
    cfg = actor_cfg()
    for engine in ENGINES:
        h = Harness(cfg, with_plugin=True, services={"kid": kid_machine()}, threads=True)
        for hist in base_hists:
            d, _ = build(h, engine, hist)
            try:
                snap_text = d.interp.get_snapshot()
                base = json.loads(snap_text)
            finally:
                d.close()
            # reference: uncorrupted restore
            r0 = restore(engine, h, snap_text)
            ref = canon_interp(r0.interp)
            r0.close()

            def attempt(text: str, what: str, size: int, must_reject: bool):
                res["evaluations"] += 1
                res["executions"] += 1
                res["distinct_count"] += 1
                try:
                    r = restore(engine, h, text)
                except XStateMachineError:
                    return
                except Exception as exc:  # noqa: BLE001
                    res["violations"].append(dict(
                        signature=f"C12|corrupt-snapshot-raw-{type(exc).__name__}|{what.split(' ')[0]}",
                        clause="raw-exception",
                        what=f"{engine}: from_snapshot raised raw {type(exc).__name__}: {exc} for corruption [{what}] of the snapshot taken after {hist}",
                        size=size, replay=dict(kind="corrupt", engine=engine, hist=hist, what=what, text=text)))
                    return
                try:
                    same = canon_interp(r.interp) == ref
                    if same:
                        # must still work
                        err = r.send("INC")
                        if err is not None and not isinstance(err, XStateMachineError):
                            res["violations"].append(dict(
                                signature=f"C12|corrupt-snapshot-late-raw-{type(err).__name__}|{what.split(' ')[0]}",
                                clause="late-raw-exception",
                                what=f"{engine}: restored from corruption [{what}] (after {hist}) then send raised raw {err!r}",
                                size=size, replay=dict(kind="corrupt", engine=engine, hist=hist, what=what, text=text)))
                    elif must_reject:
                        res["violations"].append(dict(
                            signature=f"C12|corrupt-snapshot-silently-accepted|{what.split(' ')[0]}",
                            clause="silently-accepted",
                            what=f"{engine}: corruption [{what}] of the snapshot taken after {hist} was accepted and yields a different interpreter: {canon_interp(r.interp)[:3]}",
                            size=size, replay=dict(kind="corrupt", engine=engine, hist=hist, what=what, text=text)))
                except Exception as exc:  # noqa: BLE001
                    res["violations"].append(dict(
                        signature=f"C12|corrupt-snapshot-late-raw-{type(exc).__name__}|{what.split(' ')[0]}",
                        clause="late-raw-exception",
                        what=f"{engine}: restored from corruption [{what}] (after {hist}) then {type(exc).__name__}: {exc}",
                        size=size, replay=dict(kind="corrupt", engine=engine, hist=hist, what=what, text=text)))
                finally:
                    r.close()

            # torn writes
            for n in range(0, len(snap_text)):
                attempt(snap_text[:n], f"prefix prefix-of-length-{n}", n, True)
            for path, kind, val in corruptions(base):
                text = json.dumps(apply_corruption(base, path, kind, val))
                key = "/".join(str(p) for p in path)
                must = kind == "unknown-id" or (kind == "type" and path[-1] in ("status", "configuration", "state_ids", "context")) \
                    or (kind == "delete" and path[-1] in ("status", "context"))
                attempt(text, f"{kind} {key} -> {val!r}", len(path), must)
            # emptied id lists (the right JSON type, no content): singly, together, and with the other key missing
            DEL = object()
            for what, edit in (("configuration=[]", {"configuration": []}), ("state_ids=[]", {"state_ids": []}),
                               ("configuration=[]+state_ids=[]", {"configuration": [], "state_ids": []}),
                               ("configuration=[]+state_ids-deleted", {"configuration": [], "state_ids": DEL}),
                               ("state_ids=[]+configuration-deleted", {"state_ids": [], "configuration": DEL})):
                c = copy.deepcopy(base)
                for k, v in edit.items():
                    if v is DEL:
                        c.pop(k, None)
                    else:
                        c[k] = v
                no_ids = not (c.get("configuration") or c.get("state_ids"))
                attempt(json.dumps(c), f"empty {what}", 2, no_ids and base.get("status") == "running")
    res["states"] = res["executions"]
    res["transitions"] = res["executions"]
    res["samples"].append(dict(kind="corruptions", base_histories=base_hists, attempts=res["evaluations"]))
    return res


def units(tier: str) -> List[Any]:
    us: List[Any] = [("tree", t) for t in F.trees_upto(3 if tier == "quick" else 4)]
    # two history owners (deep and shallow) side by side: what is remembered for one must not leak into the other on restore
    A_ = ("A", ())
    us.append(("tree", ("C", (("C", (("Hd", ()), A_, ("C", (A_, A_)))), ("C", (("Hs", ()), A_, A_))))))
    # keys named so that document order is the reverse of id order: the persisted history (ids sorted) must be restored
    # in the order the live engine remembers it (document order decides the order of the restored states' entry actions)
    rev = [("C", (("P", (("Hd", ()), A_, A_)), A_)), ("C", (("P", (("Hs", ()), A_, A_)), A_)),
           ("C", (("C", (("Hd", ()), ("P", (A_, A_)), A_)), A_))]
    if tier == "thorough":
        rev += [t for t in F.trees_upto(4) if any(k in ("Hs", "Hd") for k in F.tree_kinds(t)) and "P" in F.tree_kinds(t) and t not in rev]
    us += [("tree-rev", t) for t in rev]
    # a machine id that itself contains a dot ("m.v2"): every state id then has one more dot than its depth
    us += [("tree-dot", t) for t in rev]
    # context whose KEY SET changes: an action removes a key the machine declares (DROP), another puts it back (PUT), a
    # guarded transition tells presence from absence (IFT): the restored context is the snapshot's, not "defaults + snapshot"
    us += [("tree-ctx", t) for t in F.trees_upto(2 if tier == "quick" else 3)]
    us.append(("actorg", None))
    us.append(("actor", None))
    us.append(("actorf", None))
    bases = [["GO", "N", "BACK", "SPAWN"], ["SPAWN", "SPAWN2", "PING"], ["GO", "N"]]
    if tier == "thorough":
        bases += [[], ["SPAWN", "KILL"], ["GO", "N", "BACK", "HIST", "SPAWN2", "PING2", "INC"]]
    for b in bases:
        us.append(("corrupt", [b]))
    return us


def run_unit(unit):
    res = _run_unit(unit)
    for v in res.get("violations", []):
        if isinstance(v.get("replay"), dict) and v["replay"].get("kind") == "bisim":
            v["replay"]["unit"] = list(unit)
    return res


def _run_unit(unit):
    kind, payload = unit
    if kind == "actorg":
        return explore_machine(actorg_cfg(), ACTORG_EVENTS, "ACTORG", services={"kidg": kidg_machine()})
    if kind in ("tree", "tree-rev", "tree-dot"):
        cfg, nodes, events = F.universal_config(payload, reenter_all=False, naming="reversed" if kind == "tree-rev" else "prefix",
                                                root_id="m.v2" if kind == "tree-dot" else "m")
        cfg["context"] = {"k": 0}
        F.cfg_node(cfg, nodes[0]).setdefault("on", {})["INC"] = {"actions": [A.assign(lambda a: {"k": (a["context"]["k"] + 1) % 2})]}
        evs = [n for n, e in events.items() if e["kind"] == "T"] + ["INC"]
        return explore_machine(cfg, evs, F.tree_str(payload) + {"tree": "", "tree-rev": " (keys z,y,x,...)", "tree-dot": " (machine id m.v2)"}[kind])
    if kind == "tree-ctx":
        cfg, nodes, events = F.universal_config(payload, reenter_all=False)
        cfg["context"] = {"k": 0, "t": "dflt", "deep": {"u": 1}}
        on = F.cfg_node(cfg, nodes[0]).setdefault("on", {})
        on["DROP"] = {"actions": ["ctx:drop"]}
        on["PUT"] = {"actions": [A.assign(lambda a: {"t": "put"})]}
        on["DROPDEEP"] = {"actions": ["ctx:dropdeep"]}
        on["IFT"] = [{"guard": "has_t", "actions": ["tr:has-t"]}, {"actions": ["tr:no-t"]}]

        def drop(interp, ctx, event, action_def):
            ctx.pop("t", None)

        def dropdeep(interp, ctx, event, action_def):
            ctx["deep"].pop("u", None)

        evs = [n for n, e in events.items() if e["kind"] == "T"][:2] + ["DROP", "PUT", "DROPDEEP", "IFT"]
        return explore_machine(cfg, evs, F.tree_str(payload) + " (context keys removed / re-added)",
                               guards={"has_t": lambda ctx, ev, p=None: "t" in ctx},
                               actions={"ctx:drop": drop, "ctx:dropdeep": dropdeep})
    if kind == "actor":
        return explore_machine(actor_cfg(), ACTOR_EVENTS, "ACTOR", services={"kid": kid_machine()})
    if kind == "actorf":
        return explore_machine(actorf_cfg(), ACTORF_EVENTS, "ACTORF", services={"kidf": kid_factory},
                               guards={"unspawned": lambda ctx, ev, p=None: not ctx.get("sp")})
    return run_corruptions(payload)


def replay(payload):
    if payload["kind"] == "corrupt":
        h = Harness(actor_cfg(), with_plugin=True, services={"kid": kid_machine()})
        try:
            r = restore(payload["engine"], h, payload["text"])
        except XStateMachineError as exc:
            print("  rejected with", type(exc).__name__)
            return []
        except Exception as exc:  # noqa: BLE001
            print("  raw", type(exc).__name__, exc)
            return [dict(signature="C12|raw", what=repr(exc))]
        print("  accepted:", canon_interp(r.interp)[:3])
        r.close()
        return []
    if payload["kind"] == "bisim" and payload.get("unit"):
        from .c01 import _tuplify

        unit = _tuplify(payload["unit"])
        res = run_unit((unit[0], unit[1]))
        out = [v for v in res["violations"] if v["replay"]["hist"] == payload["hist"] and v["replay"]["engine"] == payload["engine"]
               and v["replay"].get("ev") == payload.get("ev")]
        for v in out:
            print("  ", v["what"][:400])
        return out
    return []
