"""C17 — code generator: output rebuilds the source machine exactly, or writes nothing.

Every config of the CFG family (corpus, hostile/colliding names, Stately exports)
x 5 templates x async yes/no x 1-/2-file output goes through the real CLI entry
point in-process (argv patched, output to a temp dir).  Exit != 0 => nothing
written.  Exit 0 => files parse, import without side effects, build a machine
that has the same independent deep fingerprint and the same traces as
create_machine(json); hostile strings occur only as string constants; a second
generation is byte-identical and --check reports no drift.
"""
from __future__ import annotations

import ast
import builtins
import contextlib
import copy
import importlib.util
import io
import json
import os
import shutil
import sys
import tempfile
from typing import Any, Dict, List, Optional, Tuple

from xstate_statemachine import MachineLogic, StateMachine, create_machine
from xstate_statemachine.exceptions import XStateMachineError

from .. import cfgtools as C
from .. import core

LEVEL = "exploration"
RULE = (
    "configs = corpus machines (one per construct of the config language) + alternative spellings and values equal to engine defaults (invoke ids equal to the state's path / id, reenter false, empty lists) + one machine per position at which a logic name can be referenced (entry, exit, transition, always, after, onDone, invoke handlers, root, guards inside composites of depth <=3 in every operand spelling) + hostile machines (quotes, backslashes, newlines, "
    "code-injection payloads carrying a canary, Python keywords, names colliding after case conversion, unicode) + Stately "
    "exports shipped with the test-suite; each x {class-json, function-json, pythonic-class, pythonic-builder, "
    "pythonic-functional} x async {yes,no} x files {1,2} through the real CLI main(); oracle: exit!=0 => output directory "
    "empty; exit 0 => ast.parse, import under an audit hook (no file write / process / socket / exec of config strings), machine "
    "built by the generated code == create_machine(json) under an independent deep fingerprint and product-BFS traces (both "
    "guard valuations, recorder logic bound by name), canary only inside string constants and never executed, second "
    "generation byte-identical, --check exits 0; distinct_nontrivial = distinct (config, template, async, files) generations"
)
BOUNDS = {
    "quick": "10 corpus + 11 alternative-spelling/explicit-default/keyword-prefixed/snake_case + 8 hostile + 62 reference-position machines + 12 Stately exports x 5 templates x 2 async x 2 file counts",
    "thorough": "10 corpus + 11 alternative-spelling/explicit-default/keyword-prefixed/snake_case + 8 hostile + 172 reference-position machines + all 104 Stately exports x 5 templates x 2 async x 2 file counts",
}
ASSUMPTIONS = [
    "the generated runner's main() (demo simulation) is not executed; the logic module / machine builder is",
    "Stately exports are compared structurally and by traces to depth 2, the other configs to depth 3",
    "custom state ids are not compared (the Python State API has no id parameter; targets are compared as resolved states)",
    "the black formatter the CLI spawns as a subprocess is called in-process with the same line length (memoised); compared equal on samples",
    "configs that create_machine(json) itself rejects, or cannot run, have no reference machine and are counted, not judged",
]
TEMPLATES = ["class-json", "function-json", "pythonic-class", "pythonic-builder", "pythonic-functional"]
CANARY = "CANARY_7f3a"
PAYLOAD = "x\"); __import__('builtins').__dict__.__setitem__('" + CANARY + "', 1)  # "
STATELY_DIR = "/repo/tests/tests_cli/stately_machines"


def hostile() -> Dict[str, Dict[str, Any]]:
    h: Dict[str, Dict[str, Any]] = {}
    h["quotes"] = {"id": "q", "initial": "a", "states": {
        "a": {"entry": ["say\"hi\"", "it's"], "on": {"GO'": {"target": "b", "actions": ["back\\slash"]}}},
        "b": {"on": {"BACK": "a"}}}}
    h["inject_action"] = {"id": "inj", "initial": "a", "states": {
        "a": {"entry": [PAYLOAD], "on": {"E": {"target": "b", "guard": PAYLOAD + "g", "actions": [{"type": PAYLOAD + "a", "params": {"k": PAYLOAD}}]}}},
        "b": {"invoke": {"src": PAYLOAD + "s", "onDone": "a"}}}}
    h["inject_state"] = {"id": "inj2", "initial": "s1", "states": {
        "s1": {"on": {"E": "evil\"\"\"\n" + CANARY + "=1\n\"\"\""}},
        "evil\"\"\"\n" + CANARY + "=1\n\"\"\"": {"on": {"E": "s1"}, "meta": {"doc": "\"\"\"" + PAYLOAD}, "tags": [PAYLOAD]}}}
    h["inject_id"] = {"id": "m\"\"\"\n" + CANARY + " = 1\n\"\"\"", "initial": "a", "states": {"a": {"on": {"E": "b"}}, "b": {}}}
    # an EVENT name that ends its string literal with a raw newline (the runner sends every event it finds)
    h["newline_event"] = {"id": "nl", "initial": "a", "states": {
        "a": {"on": {"GO\n" + CANARY + " = 1": "b", "TAB\tX": "b", "OK": "b"}}, "b": {"on": {"BACK\r": "a"}}}}
    h["keywords"] = {"id": "kw", "initial": "class", "states": {
        "class": {"entry": ["def", "import"], "on": {"lambda": {"target": "None", "guard": "True"}}},
        "None": {"on": {"return": "class"}}}}
    h["collide"] = {"id": "col", "initial": "a", "states": {
        "a": {"entry": ["doIt", "do_it", "DoIt"], "on": {"E": {"target": "b", "guard": "isOk"}, "F": {"target": "b", "guard": "is_ok"}}},
        "b": {"on": {"E": "a"}}}}
    h["unicode"] = {"id": "uni", "initial": "état", "states": {
        "état": {"entry": ["naïve", "日本"], "on": {"GO→": "b b"}}, "b b": {"on": {"1st": "état"}}}}
    return h


def extra() -> Dict[str, Dict[str, Any]]:
    """Constructs the IR claims to model, in the alternative spellings the engine accepts."""
    e: Dict[str, Dict[str, Any]] = {}
    e["guard_shapes"] = {"id": "gs", "initial": "a", "states": {
        "a": {"on": {
            "A": {"target": "b", "guard": {"type": "and", "params": {"guards": ["g1", {"type": "g2", "params": {"n": 1}}]}}},
            "B": {"target": "b", "guard": {"type": "not", "params": {"guard": "g1"}}},
            "C": {"target": "b", "guard": {"type": "or", "children": [{"type": "and", "children": ["g1", "g2"]}, {"type": "not", "children": [{"type": "g3", "params": {"deep": [1, {"x": "y"}]}}]}]}},
            "D": {"target": "b", "cond": {"type": "g1", "params": {"k": "v"}}},
            "E": [{"target": "b", "guard": {"type": "stateIn", "params": {"state": "#gs.a"}}}, {"target": "c"}],
        }},
        "b": {"on": {"BACK": "a"}}, "c": {"on": {"BACK": "a"}}}}
    e["statein_custom_id"] = {"id": "sc", "type": "parallel", "states": {
        "r1": {"initial": "x", "states": {"x": {"id": "theX", "on": {"T": "y"}}, "y": {"on": {"T": "x"}}}},
        "r2": {"initial": "p", "states": {
            "p": {"on": {"GO": [{"target": "q", "guard": {"type": "stateIn", "params": {"state": "#theX"}}}, {"target": "r"}]}},
            "q": {"on": {"BACK": "p"}}, "r": {"on": {"BACK": "p"}}}}}}
    e["ondone_guarded"] = {"id": "od", "initial": "w", "context": {"n": 0}, "states": {
        "w": {"initial": "a", "states": {"a": {"on": {"F": "z"}}, "z": {"type": "final"}},
              "onDone": [{"target": "e1", "guard": "pick", "actions": ["note", {"type": "tell", "params": {"who": "x"}}]}, {"target": "e2", "actions": ["other"]}]},
        "e1": {"on": {"R": "w"}}, "e2": {"on": {"R": "w"}}}}
    e["root_level"] = {"id": "rl", "initial": "a", "entry": ["rootIn"], "exit": ["rootOut"], "on": {"RESET": {"target": ".a", "actions": ["onReset"]}, "PING": {"actions": ["pong"]}},
                       "states": {"a": {"on": {"N": "b"}}, "b": {"on": {"N": "a", "SELF": {"target": "b", "reenter": True, "actions": ["again"]}}, "entry": ["inB"], "exit": ["outB"]}}}
    e["after_named"] = {"id": "an", "initial": "a", "states": {
        "a": {"after": {"SHORT": {"target": "b", "guard": "mayLeave", "actions": ["left"]}, "200": [{"target": "c", "guard": "alt"}, {"target": "b"}]}, "on": {"N": "b"}},
        "b": {"on": {"N": "a"}}, "c": {"on": {"N": "a"}}}}
    e["invoke_full"] = {"id": "iv", "initial": "a", "context": {"k": 1}, "states": {
        "a": {"invoke": [{"id": "first", "src": "svcOne", "input": {"a": [1, 2]}, "onDone": {"target": "b", "guard": "okDone", "actions": ["store"]},
                          "onError": [{"target": "c", "guard": "retryable"}, {"target": "d", "actions": [{"type": "report", "params": {"level": 2}}]}]},
                         {"src": "svcTwo", "onDone": {"actions": ["second"]}}], "on": {"N": "b"}},
        "b": {"on": {"N": "a"}}, "c": {"on": {"N": "a"}}, "d": {"on": {"N": "a"}}}}
    # values that coincide with what the engine would default to - an emitter that "tidies them away" must still be exact
    e["invoke_ids"] = {"id": "loader", "initial": "loading", "states": {
        "loading": {"invoke": {"id": "loading", "src": "fetchIt", "onDone": {"actions": ["got"]}}, "on": {"done.invoke.loading": "ready", "N": "nested"}},
        "ready": {"invoke": {"id": "loader.ready", "src": "fetchIt"}, "on": {"done.invoke.loader.ready": "loading", "N": "loading"}},
        "nested": {"initial": "inner", "states": {"inner": {"invoke": [{"id": "nested.inner", "src": "fetchIt"}, {"id": "inner", "src": "other"}, {"src": "third"}],
                                                   "on": {"done.invoke.nested.inner": "#loader.ready", "done.invoke.inner": "#loader.loading"}}}}}}
    e["explicit_defaults"] = {"id": "ed", "initial": "b", "context": {}, "states": {
        "a": {"type": "atomic", "entry": [], "on": {"SELF": "a", "SELF2": {"target": "a", "reenter": False, "actions": ["s2"]}, "N": {"target": "b", "actions": []}}},
        "b": {"type": "compound", "initial": "y", "states": {"x": {"on": {"N": "y"}}, "y": {"on": {"N": "x", "UP": "#ed.a"}, "tags": []}},
              "on": {"A": "a"}, "after": {"0": {"target": "a", "guard": "never"}}}}}
    # names that merely BEGIN with a Python statement keyword (line-based post-processing of generated text must not mistake them)
    e["keyword_prefixed_names"] = {"id": "sync", "initial": "importing", "states": {
        "importing": {"initial": "fetch", "entry": ["fromCache", "defer"], "states": {
            "fetch": {"initial": "a", "states": {"a": {"on": {"N": "b"}}, "b": {"on": {"N": "a"}}}, "on": {"DONE": "classify"}},
            "classify": {"entry": ["classify", "returnHome"], "on": {"BACK": "fetch"}}},
            "on": {"NEXT": "fromStore"}},
        "fromStore": {"invoke": {"id": "imp", "src": "importOrders", "onDone": {"target": "withdrawing", "actions": ["passThrough"]}, "onError": "importing"},
                      "on": {"guardOpen": {"target": "withdrawing", "guard": "isinstanceOk"}}},
        "withdrawing": {"entry": ["raiseAlarm", "asyncTask", "whileWaiting", "tryAgain", "globalReset"], "on": {"NEXT": "importing"}}}}
    # names written in snake_case with underscores (the bare @action decorator would register them under camelCase)
    e["snake_case_names"] = {"id": "door", "initial": "closed", "states": {
        "closed": {"entry": ["log_closed_state"], "on": {"OPEN": {"target": "opened", "guard": "is_open_allowed", "actions": ["ring_the_bell"]}}},
        "opened": {"invoke": {"id": "w", "src": "fetch_all_data", "onDone": {"actions": ["store_it"]}}, "on": {"CLOSE": "closed"}}}}
    e["legacy_keys"] = {"id": "lk", "initial": "a", "states": {
        "a": {"onEntry": ["inA"], "onExit": ["outA"], "on": {"": {"target": "b", "cond": "auto"}, "N": "b"}}, "b": {"on": {"N": "a"}}}}
    return e


def stately(n: Optional[int]) -> Dict[str, Dict[str, Any]]:
    out = {}
    files = sorted(f for f in os.listdir(STATELY_DIR) if f.endswith(".json"))
    if n is not None:
        step = max(1, len(files) // n)
        files = files[::step][:n]
    for f in files:
        try:
            out["stately:" + f[:-5]] = json.load(open(os.path.join(STATELY_DIR, f)))
        except Exception:
            continue
    return out


def all_configs(tier: str) -> Dict[str, Dict[str, Any]]:
    out: Dict[str, Dict[str, Any]] = {}
    out.update({"corpus:" + k: v for k, v in C.corpus().items()})
    out.update({"extra:" + k: v for k, v in extra().items()})
    out.update({"hostile:" + k: v for k, v in hostile().items()})
    # one machine per place a logic name can be referenced (shared with C19): the stub / binding must exist wherever the name sits
    from .c19 import reference_positions
    for label, role, cfg in reference_positions():
        if tier == "quick" and label.count(">") >= 2:
            continue
        out["pos:" + label] = cfg
    out.update(stately(12 if tier == "quick" else None))
    return out


# ------------------------------------------------------------------ running the CLI
class _BlackInProcess:
    """Seam: the CLI formats its output by spawning `python -m black -q -l N -` (0.25 s per call, nine calls per
    generation).  The same formatter is called in-process, memoised on its input; anything else goes to the real subprocess."""

    def __init__(self, real):
        self.real = real
        self.cache: Dict[Tuple[str, str], Any] = {}
        self.run = self._run
        for name in ("SubprocessError", "TimeoutExpired", "CalledProcessError", "PIPE", "DEVNULL"):
            setattr(self, name, getattr(real, name))

    def _run(self, cmd, *a, **kw):
        import types
        if isinstance(cmd, list) and cmd[1:4] == ["-m", "black", "--quiet"] and cmd[-1] == "-":
            ll = next(c for c in cmd if str(c).startswith("--line-length="))
            key = (ll, kw.get("input"))
            if key not in self.cache:
                try:
                    import black
                    mode = black.Mode(line_length=int(ll.split("=")[1]))
                    try:
                        out = black.format_str(key[1], mode=mode)
                        self.cache[key] = types.SimpleNamespace(returncode=0, stdout=out, stderr="")
                    except black.NothingChanged:
                        self.cache[key] = types.SimpleNamespace(returncode=0, stdout=key[1], stderr="")
                    except Exception as exc:  # black refuses (invalid input): same as exit 123
                        self.cache[key] = types.SimpleNamespace(returncode=123, stdout="", stderr=str(exc))
                except ImportError:
                    self.cache[key] = self.real.run(cmd, *a, **kw)
            return self.cache[key]
        return self.real.run(cmd, *a, **kw)


_SEAM = [None]


def run_cli(argv: List[str]) -> Tuple[int, str]:
    from xstate_statemachine.cli.__main__ import main
    from xstate_statemachine.cli import postprocess

    if _SEAM[0] is None:
        _SEAM[0] = _BlackInProcess(postprocess.subprocess)
    if postprocess.subprocess is not _SEAM[0]:
        postprocess.subprocess = _SEAM[0]

    old = sys.argv
    sys.argv = ["xsm"] + argv
    buf = io.StringIO()
    code = 0
    import logging

    try:
        with contextlib.redirect_stdout(buf), contextlib.redirect_stderr(buf):
            try:
                main()
            except SystemExit as e:
                code = e.code if isinstance(e.code, int) else (0 if e.code is None else 1)
    finally:
        sys.argv = old
        # the CLI configures logging handlers; put ours back
        core._LOG_INSTALLED = False
        core.install_logging()
    return code, buf.getvalue()


def load_module(path: str, name: str):
    spec = importlib.util.spec_from_file_location(name, path)
    mod = importlib.util.module_from_spec(spec)
    sys.modules[name] = mod
    try:
        spec.loader.exec_module(mod)
    finally:
        sys.modules.pop(name, None)
    return mod


AUDIT_LOG: List[tuple] = []
_AUDIT_ON = [False]
_AUDIT_INSTALLED = [False]


def _audit(event: str, args: tuple) -> None:
    if not _AUDIT_ON[0]:
        return
    if event in ("os.system", "subprocess.Popen", "socket.connect", "socket.bind", "os.remove", "os.rename", "shutil.rmtree"):
        AUDIT_LOG.append((event, repr(args)[:120]))
    elif event == "open":
        mode = args[1] if len(args) > 1 else "r"
        if isinstance(mode, str) and any(c in mode for c in "wax+"):
            AUDIT_LOG.append((event, repr(args)[:120]))
    elif event in ("exec", "compile"):
        # compile of the module source itself is expected (import machinery); flag compile of config strings
        src = args[0] if args else None
        if isinstance(src, (str, bytes)) and CANARY.encode() in (src.encode() if isinstance(src, str) else src) and len(src) < 400:
            AUDIT_LOG.append((event, repr(src)[:120]))


def build_generated(outdir: str, files: List[str], template: str, cfg: Dict[str, Any], tag: str):
    """Imports the generated logic module and builds the machine the way the generated runner does."""
    logic_file = next((f for f in files if f.endswith("_logic.py")), files[0])
    if not _AUDIT_INSTALLED[0]:
        sys.addaudithook(_audit)
        _AUDIT_INSTALLED[0] = True
    AUDIT_LOG.clear()
    sys.path.insert(0, outdir)
    _AUDIT_ON[0] = True
    try:
        mod = load_module(os.path.join(outdir, logic_file), f"gen_{abs(hash(tag))}")
    finally:
        _AUDIT_ON[0] = False
        sys.path.remove(outdir)
    side_effects = list(AUDIT_LOG)
    if template in ("pythonic-functional", "pythonic-builder"):
        m = mod.build()
    elif template == "pythonic-class":
        cls = next(v for v in vars(mod).values() if isinstance(v, type) and issubclass(v, StateMachine) and v is not StateMachine)
        m = cls.create_machine()
    elif template == "class-json":
        cls = next(v for k, v in vars(mod).items() if isinstance(v, type) and k.endswith("Logic") and v.__module__ == mod.__name__)
        m = create_machine(copy.deepcopy(cfg), logic_providers=[cls()])
    else:
        m = create_machine(copy.deepcopy(cfg), logic_modules=[mod])
    return m, side_effects


def unbound_names(outdir: str, files: List[str], template: str, cfg: Dict[str, Any]) -> List[str]:
    """Names the machine requires (the library's own requirement walk) that the generated logic offers under neither the
    function name nor its camelCase alias."""
    import inspect
    from xstate_statemachine.logic_loader import LogicLoader, _snake_to_camel
    from xstate_statemachine.models import MachineNode

    logic_file = next((f for f in files if f.endswith("_logic.py")), files[0])
    sys.path.insert(0, outdir)
    try:
        mod = load_module(os.path.join(outdir, logic_file), f"genb_{abs(hash(outdir))}")
    finally:
        sys.path.remove(outdir)
    if template == "class-json":
        cls = next(v for k, v in vars(mod).items() if isinstance(v, type) and k.endswith("Logic") and v.__module__ == mod.__name__)
        names = [n for n, _ in inspect.getmembers(cls(), inspect.ismethod) if not n.startswith("_")]
    else:
        names = [n for n, _ in inspect.getmembers(mod, inspect.isfunction) if not n.startswith("_")]
    avail = set(names) | {_snake_to_camel(n) for n in names}
    req_a, req_g, req_s = set(), set(), set()
    LogicLoader._extract_logic_from_node(MachineNode(config=copy.deepcopy(cfg), logic=MachineLogic()), req_a, req_g, req_s)
    return sorted(n for n in (req_a | req_g | req_s) if n not in avail)


def rebinder(m, cfg):
    """Returns a build function for cfgtools.equivalent: the generated machine with its logic replaced by recorders, by name."""
    def build(log: List[tuple], gv: bool):
        ref_logic = C.corpus_logic(cfg, log, gv)
        mm = copy.copy(m)
        # share structure, swap the logic object
        new_logic = MachineLogic(actions=dict(m.logic.actions), guards=dict(m.logic.guards), services=dict(m.logic.services), delays=dict(m.logic.delays))
        for k in list(new_logic.actions):
            if k in ref_logic.actions:
                new_logic.actions[k] = ref_logic.actions[k]
        for k in list(new_logic.guards):
            if k in ref_logic.guards:
                new_logic.guards[k] = ref_logic.guards[k]
        for k in list(new_logic.services):
            if k in ref_logic.services:
                new_logic.services[k] = ref_logic.services[k]
        for k, v in ref_logic.delays.items():
            new_logic.delays.setdefault(k, v)
        m.logic = new_logic
        return m

    return build


import re as _re


def _round_trips(name: str) -> bool:
    """Can auto-discovery (function name, or its camelCase alias) bind this name at all?"""
    import keyword
    from xstate_statemachine.cli.utils import camel_to_snake
    from xstate_statemachine.logic_loader import _snake_to_camel

    if not name.isidentifier() or keyword.iskeyword(name) or name.startswith("_"):
        return False
    sn = camel_to_snake(name)
    return not keyword.iskeyword(sn) and (sn == name or _snake_to_camel(sn) == name)


def _cause(clause: str, exc: BaseException) -> str:
    """Cause-oriented refinement: an unbound logic name is classified by whether auto-discovery could bind it at all."""
    msg = str(exc)
    mm = _re.search(r"(Action|Guard|Service) '(.*?)' (is defined|referenced|not implemented|is not)", msg, _re.S)
    if isinstance(exc, XStateMachineError) and type(exc).__name__ == "ImplementationMissingError" and mm:
        nm = mm.group(2)
        return f"logic-name-not-bound({'name-a-function-name-maps-to' if _round_trips(nm) else 'name-no-function-name-maps-to'})"
    return f"{clause}({type(exc).__name__})"


def check_case(name: str, cfg: Dict[str, Any], template: str, am: str, fc: str, res) -> None:
    res["evaluations"] += 1
    res["executions"] += 1
    res["distinct_count"] += 1
    tmp = tempfile.mkdtemp(prefix="c17_")
    kind = name.split(":")[0]

    def flag(clause, detail):
        res["violations"].append(dict(
            signature=f"C17|{clause}|{'json-templates' if template.endswith('-json') else 'pythonic-templates'}", clause=clause,
            what=f"{clause}: {detail}; config {name}, template {template}, async {am}, files {fc}", size=1,
            replay=dict(config=name, template=template, am=am, fc=fc)))

    try:
        src = os.path.join(tmp, "machine.json")
        with open(src, "w") as f:
            json.dump(cfg, f)
        out = os.path.join(tmp, "out")
        argv = ["generate-template", src, "-o", out, "-t", template, "-am", am, "-fc", fc, "--force", "--log", "no", "--sleep", "no"]
        setattr(builtins, CANARY, None)
        delattr(builtins, CANARY)
        code, text = run_cli(argv)
        files = sorted(os.listdir(out)) if os.path.isdir(out) else []
        if code != 0:
            res["counters"]["refused"] = res["counters"].get("refused", 0) + 1
            if files:
                flag("failed-but-wrote-files", f"exit {code}, files {files}")
            return
        if not files:
            flag("exit-0-without-output", text[-200:])
            return
        # ---- valid python, canary only in string constants
        for fn in files:
            source = open(os.path.join(out, fn)).read()
            try:
                tree = ast.parse(source)
            except SyntaxError as exc:
                flag("generated-file-not-valid-python", f"{fn}: {exc}")
                return
            # the payloads, had they escaped their string literal / docstring / comment, would parse to a Name
            # `CANARY_7f3a` (assignment), a call of `__import__` or an attribute `__setitem__`; identifiers the
            # generator derives by sanitising a hostile name (evil_CANARY_7f3a_1) are not that
            for node in ast.walk(tree):
                if (isinstance(node, ast.Name) and node.id in (CANARY, "__import__")) or \
                        (isinstance(node, ast.Attribute) and node.attr in ("__setitem__", "__dict__")):
                    flag("config-string-became-code", f"{fn}: line {node.lineno}: {ast.dump(node)[:80]}")
                    break
        # ---- the machine to compare with; a config the library itself rejects has no reference to be equal to
        try:
            ref = create_machine(copy.deepcopy(cfg), logic=C.corpus_logic(cfg, []))
        except Exception:  # noqa: BLE001
            res["counters"]["skipped_reference_unbuildable"] = res["counters"].get("skipped_reference_unbuildable", 0) + 1
            return
        # ---- import + build
        m, side = None, []
        try:
            m, side = build_generated(out, files, template, cfg, f"{name}|{template}|{am}|{fc}")
        except XStateMachineError as exc:
            if type(exc).__name__ == "ImplementationMissingError" and template.endswith("-json"):
                # discovery reports the first missing name only: judge every referenced name on its own
                for nm in unbound_names(out, files, template, cfg):
                    flag(f"logic-name-not-bound({'name-a-function-name-maps-to' if _round_trips(nm) else 'name-no-function-name-maps-to'})",
                         f"ImplementationMissingError for {nm!r}")
            else:
                flag(_cause("generated-code-does-not-build-the-machine", exc), f"{type(exc).__name__}: {exc}")
        except Exception as exc:  # noqa: BLE001
            flag("generated-code-raises-on-import-or-build", f"{type(exc).__name__}: {exc}")
        if side:
            flag("import-has-side-effects", f"{side[:2]}")
        if getattr(builtins, CANARY, None) is not None:
            flag("config-string-executed", "canary was set while importing / building")
            delattr(builtins, CANARY)
        # ---- same machine
        fp_ref = C.fingerprint(ref, custom_ids=False)
        fp = C.fingerprint(m, custom_ids=False) if m is not None else None
        if m is None:
            pass
        elif fp_ref != fp:
            from .c18 import _first_diff
            flag("structure-differs", _first_diff(fp_ref, fp))
        else:
            events = C.events_of(cfg)
            depth = 3 if kind != "stately" else 2
            for gv in (True, False):
                try:
                    ta, _ = C.run_trace(cfg, events, depth, gv)
                except Exception:  # noqa: BLE001 - the library cannot run this config at all: nothing to compare with
                    res["counters"]["skipped_reference_unrunnable"] = res["counters"].get("skipped_reference_unrunnable", 0) + 1
                    break
                build_b = rebinder(m, cfg)
                try:
                    tb, _ = C.run_trace(cfg, events, depth, gv, build=lambda log: build_b(log, gv))
                except XStateMachineError as exc:
                    flag(_cause("generated-machine-fails-at-run-time", exc), f"{type(exc).__name__}: {exc}")
                    break
                bad = next((h for h in sorted(set(ta) | set(tb), key=lambda h: (len(h), h)) if ta.get(h) != tb.get(h)), None)
                if bad is not None:
                    flag("behaviour-differs", f"guards={gv} after {list(bad)}: {ta.get(bad)} vs {tb.get(bad)}"[:300])
                    break
                res["transitions"] += len(ta)
        # ---- regeneration is byte-identical, --check reports no drift
        out2 = os.path.join(tmp, "out2")
        code2, _ = run_cli(["generate-template", src, "-o", out2, "-t", template, "-am", am, "-fc", fc, "--force", "--log", "no", "--sleep", "no"])
        if code2 == 0:
            for fn in files:
                a = open(os.path.join(out, fn), "rb").read()
                p2 = os.path.join(out2, fn)
                b = open(p2, "rb").read() if os.path.exists(p2) else None
                if a != b:
                    flag("regeneration-not-byte-identical", fn)
        code3, text3 = run_cli(["generate-template", src, "-o", out, "-t", template, "-am", am, "-fc", fc, "--check", "--log", "no", "--sleep", "no"])
        if code3 != 0:
            flag("check-reports-drift-on-fresh-output", f"exit {code3}: {text3[-200:]}")
    finally:
        shutil.rmtree(tmp, ignore_errors=True)


def units(tier: str) -> List[Any]:
    us = []
    for name in all_configs(tier):
        for template in TEMPLATES:
            us.append((name, template, tier))
    return us


def run_unit(unit):
    name, template, tier = unit
    cfg = all_configs(tier)[name]
    res = dict(states=0, transitions=0, executions=0, evaluations=0, distinct_count=0, violations=[], samples=[], caps=[], counters={})
    for am in ("yes", "no"):
        for fc in ("1", "2"):
            check_case(name, cfg, template, am, fc, res)
    res["samples"].append(dict(config=name, template=template, generations=res["evaluations"]))
    return res


def replay(payload):
    res = dict(states=0, transitions=0, executions=0, evaluations=0, distinct_count=0, violations=[], samples=[], caps=[], counters={})
    cfg = all_configs("thorough")[payload["config"]]
    check_case(payload["config"], cfg, payload["template"], payload["am"], payload["fc"], res)
    for v in res["violations"]:
        print("  ", v["what"])
    return res["violations"]
