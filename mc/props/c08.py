"""C08 — delayed (after) transitions fire when due and never after the state was left.

TIME machines x environment scripts (events, re-entries, stop, slow action) placed
before / at / after each deadline x every order of timers due at the same instant
(including the expiry notification being queued behind already queued events),
on both engines, judged on the virtual-time-stamped log.
"""
from __future__ import annotations

import asyncio
import itertools
from typing import Any, Dict, List, Optional, Tuple

from xstate_statemachine import actions as A

from .. import core
from ..drivers import Harness
from ..e2 import Choices, explore
from ..timeline import EPS, run_async, run_sync

UNIT_TIMEOUT = 900  # backstop against a hung unit only; thread-slice subtrees can take minutes on a loaded machine
LEVEL = "exploration"
RULE = (
    "TIME machine variants (one delay, two delays, two same-named timed states with the same delay in sibling regions, a guarded + fallback candidate list under one delay key, two delay keys resolving to the same duration, targetless delay + second delay, named computed delay, compound timed state re-entered through a descendant target, guarded "
    "delay true/false/raise) x environment scripts = all sequences up to the length bound over {LEAVE, BACK, SELF "
    "(re-enter), NOP, STOP, SLOW (an action that keeps the interpreter busy across a deadline), SLOWSELF (the busy action first "
    "queues a re-entering event, so the expiry lands behind it), CHG (named delay)} with non-decreasing times from a grid straddling the "
    "deadlines (before, same instant, between, after) x all schedule choices (order of timers tied at an instant, "
    "ready work before/after the next tied timer; sync: op before/after a thread due at the same instant); each "
    "execution is judged on its timestamped log; distinct_nontrivial = distinct (variant, engine, script, schedule, "
    "observed firing pattern)"
)
BOUNDS = {
    "quick": "scripts of length <=2 over a 5-point grid, all schedule choices, both engines; sync threads: leave / re-enter against the after-timer threads, every line-level interleaving with <=1 preemption",
    "thorough": "scripts of length <=3 over a 5-point grid, all schedule choices, both engines; sync threads: <=1-2 preemptions",
}
ASSUMPTIONS = [
    "only the order of instants matters to the library; the grid is representative, not an enumeration of the reals",
    "sync engine: cooperative scheduling only here (switches at shim calls); preemptive slices are in C04",
]
ENGINES = ("sync", "async")
D1, D2 = 0.25, 0.375
GRID = (0.125, 0.25, 0.3125, 0.375, 0.5)
HORIZON = 1.5
VARIANTS = ("one", "two", "stay", "named", "g_true", "g_false", "g_raise", "compound", "compound-stay", "twin", "cand_true", "cand_false", "same-delay")


async def slow_action(interp, ctx, event, action_def):
    await asyncio.sleep(0.1875)


async def slowself_action(interp, ctx, event, action_def):
    # queue a re-entering event behind the current one, then stay busy
    await interp.send("SELF")
    await asyncio.sleep(0.1875)


def twin_cfg() -> Dict[str, Any]:
    """Two timed states with the SAME local key ('wait') and the same delay, active together in sibling regions: their
    expiry notifications are queued side by side, and leaving one must not disturb the other's."""
    def region(mark, extra_on):
        return {"initial": "wait", "states": {
            "wait": {"entry": [f"en:{mark}"], "exit": [f"ex:{mark}"], "after": {"250": {"target": "out", "actions": [f"tr:{mark}"]}}, "on": extra_on},
            "out": {}, "gone": {}}}
    return {
        "id": "m", "type": "parallel", "context": {"d": 250},
        "states": {"L": region("a1", {"LL": "gone"}), "R": region("a2", {})},
        "on": {"NOP": {"actions": ["tr:nop"]}, "SLOW": {"actions": ["slow", "tr:slow"]}},
    }


def judge_twin(engine: str, script, log: List[tuple], d) -> List[Tuple[str, str]]:
    bad: List[Tuple[str, str]] = []
    fired: Dict[str, float] = {}
    left_at: Dict[str, float] = {}
    stopped_at: Optional[float] = None
    for e in log:
        if e[0] == "A" and e[1] in ("tr:a1", "tr:a2"):
            name, t = e[1], e[5]
            if name in fired:
                bad.append(("fired-twice-in-one-activation", f"{name} at {fired[name]} and {t}"))
            fired[name] = t
            if t + EPS < D1:
                bad.append(("fired-early", f"{name} at t={t}, delay {D1}"))
            if stopped_at is not None and D1 > stopped_at + EPS:
                bad.append(("fired-though-stopped-before-deadline", f"{name} at {t}, stop() at {stopped_at}"))
        elif e[0] == "A" and e[1] in ("ex:a1", "ex:a2"):
            left_at[e[1][3:]] = e[5]
        elif e[0] == "OP" and e[1] == "STOP":
            stopped_at = e[2]
    for name, t in fired.items():
        la = left_at.get(name[3:])
        if la is not None and t > la + EPS:
            bad.append(("fired-after-state-left", f"{name} at t={t}, its state left at {la}"))
    ops = [op for _, op in script]
    if "STOP" not in ops:
        # the right region's state is left by nothing but its own timer; the left one unless LL is sent
        for name in ("tr:a2",) + (() if "LL" in ops else ("tr:a1",)):
            if name not in fired:
                bad.append(("did-not-fire-when-due", f"{name}: its state was active from 0 to the horizon {HORIZON}, deadline {D1}; fired: {fired}"))
    return bad


def make_cfg(variant: str) -> Dict[str, Any]:
    if variant == "twin":
        return twin_cfg()
    after: Dict[str, Any] = {}
    if variant in ("one", "two", "g_true", "g_false", "g_raise", "compound"):
        t1: Dict[str, Any] = {"target": "B", "actions": ["tr:a1"]}
        if variant.startswith("g_"):
            t1["guard"] = "g1"
        after["250"] = t1
        if variant == "two":
            after["375"] = {"target": "C", "actions": ["tr:a2"]}
    elif variant in ("stay", "compound-stay"):
        after["250"] = {"actions": ["tr:a1"]}
        after["375"] = {"target": "C", "actions": ["tr:a2"]}
    elif variant == "named":
        after["DLY"] = {"target": "B", "actions": ["tr:a1"]}
    elif variant == "same-delay":
        # two DIFFERENT delay keys of one state that resolve to the same duration (a literal and a named delay): independent
        after["250"] = {"actions": ["tr:a1"]}
        after["DLY"] = {"actions": ["tr:a2"]}
    elif variant.startswith("cand_"):
        # a candidate LIST under one delay key (guarded + fallback, both targetless): one delivery, one winner, once
        after["250"] = [{"guard": "g1", "actions": ["tr:a1"]}, {"actions": ["tr:a1"]}]
        after["375"] = {"target": "C", "actions": ["tr:a2"]}
    back = {"on": {"BACK": "A"}}
    cfg = {
        "id": "m", "initial": "A", "context": {"d": 250},
        "states": {
            "A": {
                "entry": ["en:A"], "exit": ["ex:A"], "after": after,
                "on": {
                    "LEAVE": "X",
                    "SELF": {"target": "A", "reenter": True},
                    "NOP": {"actions": ["tr:nop"]},
                    "SLOW": {"actions": ["slow", "tr:slow"]},
                    "SLOWSELF": {"actions": ["slowself", "tr:slow"]},
                },
            },
            "B": back, "C": back, "X": back,
        },
        "on": {"CHG": {"actions": [A.assign(lambda a: {"d": 125 if a["context"]["d"] == 250 else 250}), "tr:chg"]}},
    }
    if variant in ("compound", "compound-stay"):
        # the timed state is compound and is re-entered through a descendant target (explicit child path)
        cfg["states"]["A"].update(initial="A1", states={"A1": {}, "A2": {}})
        for st in ("B", "C", "X"):
            cfg["states"][st] = {"on": {"BACK": "#m.A.A2"}}
    return cfg


def delays_for(variant: str):
    if variant in ("named", "same-delay"):
        return {"DLY": lambda ctx, ev: ctx["d"]}
    return None


def scripts(maxlen: int, engine: str, variant: str) -> List[List[tuple]]:
    ops = ["LEAVE", "BACK", "SELF", "NOP", "STOP", "SLOW", "SLOWSELF"]
    if variant == "twin":
        ops = ["NOP", "SLOW", "LL", "STOP"]
    if variant == "named":
        ops.append("CHG")
    out: List[List[tuple]] = [[]]
    for n in range(1, maxlen + 1):
        for seq in itertools.product(ops, repeat=n):
            if "STOP" in seq[:-1]:
                continue
            for times in itertools.combinations_with_replacement(GRID, n):
                out.append([(t, op) for t, op in zip(times, seq)])
    return out


def judge(variant: str, engine: str, script, log: List[tuple], d) -> List[Tuple[str, str]]:
    """Oracle on one execution's log."""
    bad: List[Tuple[str, str]] = []
    # --- reconstruct activations of A and context d at entry
    acts: List[Dict[str, Any]] = []
    dval = 250
    stopped_at: Optional[float] = None
    stop_returned = False
    slow_spans: List[Tuple[float, float]] = []
    for e in log:
        if e[0] == "A":
            name, t = e[1], e[5]
            if name == "en:A":
                acts.append(dict(start=t, end=None, d=dval, fired={}))
            elif name == "ex:A":
                if acts and acts[-1]["end"] is None:
                    acts[-1]["end"] = t
            elif name == "tr:chg":
                dval = 125 if dval == 250 else 250
            elif name in ("tr:a1", "tr:a2"):
                if not acts:
                    bad.append(("fired-without-activation", f"{name} at {t}"))
                    continue
                a = acts[-1]
                if a["end"] is not None and t > a["end"] + EPS:
                    bad.append(("fired-after-state-left", f"{name} at t={t}, A left at {a['end']}"))
                if name in a["fired"]:
                    bad.append(("fired-twice-in-one-activation", f"{name} at {a['fired'][name]} and {t}"))
                a["fired"][name] = t
                delay = _delay(variant, name, a)
                if t + EPS < a["start"] + delay:
                    bad.append(("fired-early", f"{name} at t={t} but A entered at {a['start']} (delay {delay}): "
                                               f"active for only {t - a['start']:.4f}s"))
                if stop_returned:
                    bad.append(("fired-after-stop-returned", f"{name} at {t}, stop() called at {stopped_at}"))
                elif stopped_at is not None and a["start"] + delay > stopped_at + EPS:
                    bad.append(("fired-though-stopped-before-deadline", f"{name} at {t}, deadline {a['start'] + delay}, stop() at {stopped_at}"))
        elif e[0] == "OP" and e[1] == "STOP":
            stopped_at = e[2]
        elif e[0] == "OPDONE" and e[1] == "STOP":
            stop_returned = True
        elif e[0] == "OP" and e[1] in ("SLOW", "SLOWSELF"):
            s0 = max(e[2], slow_spans[-1][1]) if slow_spans else e[2]
            slow_spans.append((s0, s0 + 0.1875))
    end_time = stopped_at if stopped_at is not None else HORIZON
    # close the open activation
    for a in acts:
        if a["end"] is None:
            a["end_eff"] = end_time
            a["open"] = stopped_at is None
        else:
            a["end_eff"] = a["end"]
            a["open"] = False
    gval = {"g_true": True, "g_false": False, "g_raise": False}.get(variant, True)
    op_times = [it[0] for it in script]
    for a in acts:
        for name in _timers(variant):
            delay = _delay(variant, name, a)
            deadline = a["start"] + delay
            other_fired_leaving = [t for n2, t in a["fired"].items() if n2 != name]
            if name == "tr:a1" and not gval:
                if name in a["fired"]:
                    bad.append(("guard-false-but-fired", f"{name} at {a['fired'][name]}"))
                continue
            # must fire if the state stayed active strictly beyond the deadline and the interpreter was idle
            still_active_after = a["end_eff"] > deadline + EPS
            busy = any(s - EPS <= deadline <= e_ + EPS for s, e_ in slow_spans)
            tie = any(abs(t - deadline) < EPS for t in op_times)
            if still_active_after and not busy and not tie:
                ft = a["fired"].get(name)
                if ft is None:
                    bad.append(("did-not-fire-when-due", f"{name}: A active from {a['start']} to {a['end_eff']}, deadline {deadline}, nothing pending"))
                elif abs(ft - deadline) > EPS:
                    bad.append(("fired-late-while-idle", f"{name} at {ft}, deadline {deadline}"))
    # --- census after stop
    if stopped_at is not None:
        if engine == "async":
            left = {k: len(v) for k, v in d.interp.task_manager._tasks_by_owner.items() if v}
            if left:
                bad.append(("timers-alive-after-stop", f"{left}"))
        else:
            live = [t for t in d.sched.live()]
            if d.interp._after_events or d.interp._after_threads:
                bad.append(("timers-registered-after-stop", f"{list(d.interp._after_events)}"))
    return bad


def _timers(variant: str) -> List[str]:
    return ["tr:a1", "tr:a2"] if variant in ("two", "stay", "compound-stay", "cand_true", "cand_false", "same-delay") else ["tr:a1"]


def _delay(variant: str, name: str, a: Dict[str, Any]) -> float:
    if variant == "same-delay":
        return D1
    if name == "tr:a2":
        return D2
    if variant == "named":
        return a["d"] / 1000.0
    return D1


PREEMPT = {"leave": (1, 2), "leave-back": (1, 1), "self-reenter": (1, 1), "leave-back-leave": (1, 1)}


def units(tier: str) -> List[Any]:
    maxlen = 2 if tier == "quick" else 3
    us = []
    from . import c08_preempt as PP
    from ..preempt import split

    core.install_logging()
    for variant, (bq, bt) in PREEMPT.items():
        b = bq if tier == "quick" else bt
        for root in split(PP, variant, b):
            us.append(("preempt", variant, (b, root)))
    for variant in VARIANTS:
        for engine in ENGINES:
            sc = scripts(maxlen, engine, variant)
            for i in range(0, len(sc), 60):
                us.append((variant, engine, sc[i:i + 60]))
    return us


def harness_for(variant: str, engine: str = "async") -> Harness:
    gv = {"g_true": True, "g_false": False, "g_raise": "raise", "cand_true": True, "cand_false": False}.get(variant)
    if engine == "async":
        acts = {"slow": slow_action, "slowself": slowself_action}
    else:
        def slow_sync(interp, ctx, event, action_def):
            h.sync_sleep(0.1875)

        def slowself_sync(interp, ctx, event, action_def):
            interp.send("SELF")
            h.sync_sleep(0.1875)

        acts = {"slow": slow_sync, "slowself": slowself_sync}
    h = Harness(make_cfg(variant), with_plugin=True, threads=True, guards=["g1"] if gv is not None else None,
                delays=delays_for(variant), extra_actions=acts, budget=3000)
    if gv is not None:
        h.rec.guard_vals = {"g1": gv}
    return h


def run_one(variant, engine, script, prefix=None):
    h = harness_for(variant, engine)
    results = []

    def run(ch: Choices):
        d = (run_async if engine == "async" else run_sync)(h, script, ch, horizon=HORIZON)
        try:
            log = list(h.rec.log)
            bad = judge_twin(engine, script, log, d) if variant == "twin" else judge(variant, engine, script, log, d)
            errs = []
            if engine == "async":
                errs = [c for c in d.loop.errors if "exception" in c and not isinstance(c["exception"], asyncio.CancelledError)]
            if errs:
                bad.append(("unhandled-task-exception", repr(errs[0].get("exception"))))
            fired = tuple((e[1], e[5]) for e in log if e[0] == "A" and e[1] in ("tr:a1", "tr:a2"))
            return dict(key=(fired, d.observe()[0]), bad=bad, fired=fired)
        finally:
            d.close()

    if prefix is not None:
        return [(prefix, run(Choices(prefix)))]

    def on_exec(ch, out):
        results.append((list(ch.taken), out))

    n, capped = explore(run, on_exec=on_exec, max_execs=20000)
    return results, n, capped


def run_unit(unit):
    if unit[0] == "preempt":
        from . import c08_preempt as P
        from ..preempt import unit_result

        return unit_result("C08", P, unit[1], unit[2][0], lambda v: f"caller ops {P.VARIANTS[v]} against the after-timer threads of state 'a'", root=unit[2][1])
    variant, engine, batch = unit
    res = dict(states=0, transitions=0, executions=0, evaluations=0, distinct=[], violations=[], samples=[], caps=[])
    for script in batch:
        results, n, capped = run_one(variant, engine, script)
        res["executions"] += n
        res["evaluations"] += n
        if capped:
            res["caps"].append("max_execs per script")
        for taken, out in results:
            res["distinct"].append(hash((variant, engine, repr(script), tuple(taken), out["fired"])))
            for clause, detail in out["bad"]:
                res["violations"].append(dict(
                    signature=f"C08|{clause}|{engine}",
                    clause=clause,
                    what=f"{engine}: {clause}: {detail}; variant {variant} script {script} schedule {taken}",
                    size=len(script) * 10 + len(taken),
                    replay=dict(variant=variant, engine=engine, script=script, schedule=taken),
                ))
    if batch:
        res["samples"].append(dict(variant=variant, engine=engine, script=batch[-1], executions=res["executions"]))
    return res


def replay(payload):
    if payload.get("engine") == "preempt":
        from . import c08_preempt as P
        from ..preempt import replay_unit

        return replay_unit("C08", P, payload)
    script = [tuple(x) for x in payload["script"]]
    out = run_one(payload["variant"], payload["engine"], script, prefix=payload["schedule"])
    vs = []
    for taken, o in out:
        print("  fired:", o["fired"])
        for clause, detail in o["bad"]:
            vs.append(dict(signature=f"C08|{clause}", what=detail))
            print("  ", clause, detail)
    return vs
