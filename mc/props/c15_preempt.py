"""C15, sync engine, thread slice: delayed sends under one send id (arm, re-arm, cancel) against their fire threads,
every interleaving (<= bound preemptions) at line granularity inside _deliver / its _fire and _cancel closures / the
cancel executor / send / _process_event_queue."""
from __future__ import annotations

from typing import Any, Dict, List

from xstate_statemachine import MachineLogic, SyncInterpreter, create_machine
from xstate_statemachine import actions as A

from .. import e2
from ..preempt import drive
from ..threads import Installed
from .c14_preempt import inner_code

VARIANTS: Dict[str, List[str]] = {
    "arm-cancel": ["ARM1", "CANCEL"],
    "arm-rearm": ["ARM1", "ARM2"],
    "arm-rearm-cancel": ["ARM1", "ARM2", "CANCEL"],
    "arm-cancel-arm": ["ARM1", "CANCEL", "ARM2"],
}


def config() -> Dict[str, Any]:
    def arm(ev):
        return {"type": "xstate.raise", "params": {"event": ev, "delay": 100, "id": "x"}}

    return {"id": "m", "initial": "a", "states": {"a": {"on": {
        "ARM1": {"actions": [arm("M1"), "armed1"]}, "ARM2": {"actions": [arm("M2"), "armed2"]},
        "CANCEL": {"actions": [A.cancel("x"), "cancelled"]},
        "M1": {"actions": ["m1"]}, "M2": {"actions": ["m2"]}}}}}


def run(variant: str, ch: e2.Choices, bound: int) -> Dict[str, Any]:
    ops = VARIANTS[variant]
    inst = Installed()
    sched = inst.__enter__()
    it = None
    try:
        log: List[tuple] = []

        def mk(name):
            def act(i, c, e, a):
                log.append((name, sched.current.name))
            return act

        logic = MachineLogic(actions={n: mk(n) for n in ("armed1", "armed2", "cancelled", "m1", "m2")})
        it = SyncInterpreter(create_machine(config(), logic=logic))
        cls = SyncInterpreter
        sched.trace_codes = {cls.send.__code__, cls._process_event_queue.__code__, cls._deliver.__code__,
                             inner_code(cls._deliver, "_fire"), inner_code(cls._deliver, "_cancel")}
        for nm in ("_cancel_scheduled_send", "_execute_cancel", "_cancel_send"):
            if hasattr(cls, nm):
                sched.trace_codes.add(getattr(cls, nm).__code__)
        it.start()
        sched.on_wake = lambda vt, reason: log.append((f"WOKE:{vt.name.replace('send-', '')}:{reason}", vt.name)) if vt.name.startswith("send-") else None
        real_send = it.send

        def send(*a, **kw):
            ev = a[0] if a else None
            log.append(("FIRE-DELIVERS:" + str(getattr(ev, "type", ev)), sched.current.name))
            return real_send(*a, **kw)

        it.send = send  # type: ignore[method-assign]

        from ..threads import ShimEvent

        def body():
            for k, op in enumerate(ops):
                if k:
                    ShimEvent().wait(0.01)  # the caller pauses between calls: a blocking point, other threads may run freely
                real_send(op)
        sched.spawn(body, "p1")
        d = drive(sched, ch, bound)
        bad: List[tuple] = []
        if d["capped"]:
            bad.append(("does-not-quiesce", f"{d['steps']} steps"))
        crashed = [t for t in sched.threads if t.exc is not None]
        if crashed:
            bad.append(("thread-raised", f"{crashed[0].name}: {crashed[0].exc!r}"))
        names = [n for n, _ in log]
        # reference: a send id names at most one pending send.  Once `cancelled` is logged (and nothing was armed after it),
        # a fire thread that has not yet begun to deliver must deliver nothing; a re-arm supersedes the earlier send the same way.
        def begun_before(msg, marker):
            tag = "FIRE-DELIVERS:" + msg
            return tag in names and marker in names and names.index(tag) < names.index(marker)

        for msg, armed in (("M1", "armed1"), ("M2", "armed2")):
            if armed not in names:
                continue
            tag = "FIRE-DELIVERS:" + msg
            if names.count(tag) > 1 or names.count(msg.lower()) > 1:
                bad.append(("delayed-send-delivered-twice", f"{msg}: {names}"))
            killers = [k for k in ("cancelled", "armed1", "armed2") if k in names and names.index(k) > names.index(armed) and k != armed]
            woke = f"WOKE:{msg}:timeout"
            if tag in names and killers:
                first_kill = min(names.index(k) for k in killers)
                # a timer that had already expired when the cancel / re-arm ran is concurrent with it and may deliver;
                # one that was still waiting must not
                if woke in names and names.index(woke) > first_kill:
                    bad.append(("cancelled-or-superseded-send-delivered", f"{msg} was still waiting when {names[first_kill]} completed, and was delivered: {names}"))
            if tag not in names and not killers:
                bad.append(("delayed-send-lost", f"{msg} armed, never cancelled or superseded, never delivered: {names}"))
        if it._scheduled_sends and all(t.state == "done" for t in sched.threads):
            bad.append(("send-id-registered-with-no-pending-send", f"{sorted(it._scheduled_sends)} still registered, all fire threads done"))
        order = tuple(names)
        return dict(key=order, bad=bad, order=order, schedule=d["schedule"], preemptions=d["preemptions"])
    finally:
        try:
            if it is not None:
                it.stop()
        finally:
            inst.__exit__(None, None, None)


def explore(variant: str, bound: int, max_execs: int = 60000, root=None):
    results = []

    def on_exec(ch, out):
        results.append((list(ch.taken), out))

    n, capped = e2.explore(lambda ch: run(variant, ch, bound), on_exec=on_exec, max_execs=max_execs, root=root)
    return results, n, capped
