"""C07 — failure containment and transition atomicity.

E4 fault injector: a fault-free twin run records the ordered list of user-code
call sites (marker actions, guards, plugin hooks, subscriber, emit listener,
built-in callbacks); every site is then made to raise (singly; in pairs in the
thorough tier) and the faulted run is compared with the twin.  Aborting faults
(missing action / service, unresolvable target, async action under the sync
engine) are placed at every position of every transition kind of the ABORT
family, with timers that must be re-armed.
"""
from __future__ import annotations

import asyncio
import itertools
from typing import Any, Dict, List, Optional, Tuple

from xstate_statemachine import actions as A
from xstate_statemachine.exceptions import XStateMachineError

from .. import core
from .. import families as F
from ..core import Budget
from ..drivers import Harness, canon_interp
from ..recorder import HOOK_TAGS
from ..e1 import bfs, build

LEVEL = "fault_enumeration"
RULE = (
    "(a) every step (reachable state, event) of the TREE(N) universal machines whose entry / exit / transition lists hold "
    "two markers each, and of the BUILTIN machine (assign / log / raise / emit with raising callables, lists nested through "
    "pure / choose / enqueueActions): the fault-free twin run yields the ordered call sites; each site (each pair in the "
    "thorough tier) is made to raise and the faulted run must equal the twin except for the remainder of the faulted action "
    "list, with on_action_error notified once; (b) every plugin hook occurrence (all twelve hooks incl. on_done / on_error / service and lifecycle hooks, in whole-run scenarios too), the subscriber and each of three emit listeners (two under the event type, one under the wildcard) raising - the other listeners are still called: "
    "nothing may change; (c) ABORT family: an aborting error at the exit / innermost-exit / transition / entry position (missing action, "
    "missing service, unresolvable target, async action on the sync engine) x source kinds (atomic with timer, compound with "
    "nested timers, region of a parallel state): configuration restored, error reported (raised / logged), timers of the exited "
    "states re-armed exactly once and firing later, next events handled; distinct_nontrivial = distinct (machine, state, event, "
    "fault site set) cases"
)
BOUNDS = {
    "quick": "TREE(N<=3) steps x single faults; BUILTIN machine x single faults; hooks (all 12 hook kinds, 5 lifecycle scenarios) and output callables of the final state and of the machine; ABORT family",
    "thorough": "TREE(N<=3) steps x single and paired faults; TREE(4) x single faults; BUILTIN x pairs; hooks; ABORT family",
}
ASSUMPTIONS = [
    "faults are ordinary Exceptions raised by user callables; BaseException and cancellation injection are not modelled",
    "a fault inside a nested expansion (pure/choose/enqueueActions) must skip the rest of the nested list; whether the outer list continues is left open",
]
ENGINES = ("sync", "async")


class Boom(Exception):
    pass


# ------------------------------------------------------------------ (a)+(b) on universal machines
def fault_cfg(tree):
    cfg, nodes, events = F.universal_config(tree, reenter_all=False)
    for n in nodes:
        if n.is_history:
            continue
        sub = F.cfg_node(cfg, n)
        sub["entry"] = [f"en:{n.id}:1", f"en:{n.id}:2"]
        sub["exit"] = [f"ex:{n.id}:1", f"ex:{n.id}:2"]
        for name, t in (sub.get("on") or {}).items():
            t["actions"] = [f"tr:{name}:1", f"tr:{name}:2"]
    return cfg, nodes, events


def list_key(marker: str) -> str:
    return marker.rsplit(":", 1)[0]


def expected_after_faults(twin_markers: List[str], sites: List[int]) -> List[str]:
    """Twin marker sequence with the remainder of each faulted list removed."""
    # `sites` are occurrence indexes among the calls the FAULTED run makes (that is what the injector counts): markers
    # skipped because an earlier fault cut their list are never called and do not advance the index
    out: List[str] = []
    skip_key: Optional[str] = None
    call = -1
    for m in twin_markers:
        if skip_key is not None:
            if list_key(m) == skip_key:
                continue
            skip_key = None
        call += 1
        out.append(m)
        if call in sites:
            skip_key = list_key(m)
    return out


def injector(rec, kinds: Tuple[str, ...], targets: List[int]):
    """Raises Boom at the given occurrence indexes among call sites of `kinds`."""
    state = {"i": -1}

    def fault(kind: str, name: str) -> None:
        if kind not in kinds:
            return
        state["i"] += 1
        if state["i"] in targets:
            raise Boom(f"{kind}:{name}#{state['i']}")

    return fault, state


def step_once(h: Harness, engine: str, hist, ev, fault=None):
    d, _ = build(h, engine, hist)
    mark = d.rec.mark()
    d.rec.fault = fault
    core.LOG.reset()
    err = d.send(ev)
    d.rec.fault = None
    seg = d.rec.since(mark)
    return d, seg, err


def explore_tree(tree, tier) -> Dict[str, Any]:
    cfg, nodes, events = fault_cfg(tree)
    byid = {n.id: n for n in nodes}
    res = dict(states=0, transitions=0, executions=0, evaluations=0, distinct_count=0, violations=[], samples=[], caps=[])
    label = F.tree_str(tree)
    pairs = tier == "thorough" and F.tree_size(tree) <= 4
    for engine in ENGINES:
        h = Harness(cfg, with_plugin=True, with_subscriber=True)
        h2 = Harness(cfg, with_plugin=True, with_subscriber=True)
        viol: List[Dict[str, Any]] = []

        def flag(clause, detail, hist, ev, sites, what):
            viol.append(dict(signature=f"C07|{clause}|{engine}|{what}", clause=clause,
                             what=f"{engine}: {clause}: {detail}; fault sites {sites} ({what}) in step {hist}+{ev} on {label}",
                             size=len(hist) + len(sites), replay=dict(kind="tree", tree=tree, engine=engine, hist=hist, ev=ev, sites=sites, what=what)))

        def on_state(d, hist):
            return True

        def on_step(d, hist, ev, mark, key_before):
            twin_seg = d.rec.since(mark)
            twin_markers = [e[1] for e in twin_seg if e[0] == "A"]
            twin_state = d.observe()
            twin_tr = [(e[1], e[2], e[4]) for e in twin_seg if e[0] == "TR"]
            n_sites = len(twin_markers)
            site_sets: List[List[int]] = [[i] for i in range(n_sites)]
            if pairs:
                site_sets += [list(p) for p in itertools.combinations(range(n_sites), 2)]
            for sites in site_sets:
                fault, st = injector(h2.rec, ("action",), sites)
                d2, seg, err = step_once(h2, engine, hist, ev, fault)
                try:
                    res["executions"] += 1
                    res["evaluations"] += 1
                    res["distinct_count"] += 1
                    got = [e[1] for e in seg if e[0] == "A"]
                    # with two faults the second site index refers to the twin order; recompute reachable sites
                    want = expected_after_faults(twin_markers, sites)
                    if len(sites) == 2 and got != want:
                        # the second fault may have been skipped together with the first list's remainder
                        want_alt = expected_after_faults(twin_markers, sites[:1])
                        if got == want_alt:
                            want = want_alt
                    if err is not None:
                        flag("action-fault-escaped", repr(err), hist, ev, sites, "action")
                    if got != want:
                        flag("action-fault-changed-other-actions", f"markers {got} expected {want}", hist, ev, sites, "action")
                    if d2.observe() != twin_state:
                        flag("action-fault-changed-outcome", f"{d2.observe()[:3]} vs twin {twin_state[:3]}", hist, ev, sites, "action")
                    fired = st["i"] + 1
                    raised = [s for s in sites if s < fired]
                    aes = [e for e in seg if e[0] == "AE"]
                    if len(aes) != len([s for s in raised]) and len(sites) == 1:
                        flag("on_action_error-count", f"{len(aes)} notifications for {len(raised)} raised fault(s)", hist, ev, sites, "action")
                    elif len(sites) == 1 and aes and aes[0][1] != twin_markers[sites[0]]:
                        flag("on_action_error-wrong-action", f"{aes[0]} for fault in {twin_markers[sites[0]]}", hist, ev, sites, "action")
                finally:
                    d2.close()
            # ---- (b) hooks and subscriber
            for kind in ("hook", "subscriber"):
                n_calls = sum(1 for e in twin_seg if (kind == "hook" and e[0] in HOOK_TAGS) or (kind == "subscriber" and e[0] == "SUB"))
                for i in range(n_calls):
                    fault, st = injector(h2.rec, (kind,), [i])
                    d2, seg, err = step_once(h2, engine, hist, ev, fault)
                    try:
                        res["executions"] += 1
                        res["evaluations"] += 1
                        res["distinct_count"] += 1
                        got = [e[1] for e in seg if e[0] == "A"]
                        if err is not None:
                            flag("observer-fault-escaped", repr(err), hist, ev, [i], kind)
                        if got != twin_markers:
                            flag("observer-fault-changed-actions", f"markers {got} twin {twin_markers}", hist, ev, [i], kind)
                        if d2.observe() != twin_state:
                            flag("observer-fault-changed-outcome", f"{d2.observe()[:3]} vs twin {twin_state[:3]}", hist, ev, [i], kind)
                        if [(e[1], e[2], e[4]) for e in seg if e[0] == "TR"] != twin_tr and kind != "hook":
                            flag("observer-fault-changed-hooks", "on_transition stream differs", hist, ev, [i], kind)
                    finally:
                        d2.close()
            return True

        def menu(d):
            o = d.observe()
            if o[2] != "running":
                return []
            conf = set(o[0])
            return [n for n, e in events.items() if e["src"] in conf and e["kind"] in ("T", "R")]

        cl = bfs(h, engine, menu, on_state, on_step)
        res["states"] += cl.states
        res["transitions"] += cl.transitions
        res["executions"] += cl.executions
        res["violations"].extend(viol)
    res["samples"].append(dict(machine=label, steps=res["transitions"], faulted_runs=res["evaluations"]))
    return res


# ------------------------------------------------------------------ BUILTIN machine
def builtin_machine(rec):
    """Built-ins whose callbacks go through rec.fault (site kind 'callback')."""

    def cb(name, value):
        def f(args):
            rec.log.append(("CB", name))
            if rec.fault is not None:
                rec.fault("callback", name)
            return value(args) if callable(value) else value

        return f

    def nested(args):
        rec.log.append(("CB", "pure.get"))
        if rec.fault is not None:
            rec.fault("callback", "pure.get")
        return ["mk:n1", "mk:n2"]

    def enq(args):
        rec.log.append(("CB", "enqueue.cb"))
        if rec.fault is not None:
            rec.fault("callback", "enqueue.cb")
        args["enqueue"]("mk:q1")
        args["enqueue"]("mk:q2")

    def listener(name):
        def f(ev):
            rec.log.append(("LISTEN", f"{name}:{ev.type}"))
            if rec.fault is not None:
                rec.fault("listener", f"{name}:{ev.type}")
        return f

    cfg = {
        "id": "m", "initial": "a", "context": {"k": 0},
        "states": {
            "a": {
                "entry": ["mk:en_a1", A.assign(cb("assign.entry", lambda a: {"k": a["context"]["k"] + 1})), "mk:en_a2"],
                "exit": ["mk:ex_a1", A.log(cb("log.expr", "bye")), "mk:ex_a2"],
                "on": {
                    "GO": {"target": "b", "actions": [
                        "mk:t1", A.assign(cb("assign.tr", {"z": 1})), "mk:t2", A.emit(cb("emit.event", {"type": "NOTE"})), "mk:t3"]},
                    "RAISE": {"actions": ["mk:r1", A.raise_(cb("raise.event", {"type": "PING"})), "mk:r2"]},
                    "NEST": {"actions": ["mk:o1", A.pure(nested), "mk:o2", A.enqueue_actions(enq), "mk:o3",
                                         A.choose([{"guard": "yes", "actions": ["mk:c1", "mk:c2"]}]), "mk:o4"]},
                },
            },
            "b": {"entry": ["mk:en_b1", "mk:en_b2"], "on": {"BACK": "a"}},
        },
        "on": {"PING": {"actions": ["mk:rping"]}},
    }
    return cfg, listener


def explore_builtin(tier) -> Dict[str, Any]:
    res = dict(states=0, transitions=0, executions=0, evaluations=0, distinct_count=0, violations=[], samples=[], caps=[])
    nested_keys = {"mk:n": "mk:o", "mk:q": "mk:o", "mk:c": "mk:o"}
    for engine in ENGINES:
        def make():
            h = Harness({"id": "x", "states": {}}, with_plugin=True, extra_guards={"yes": lambda c, e, p=None: True})
            cfg, listener = builtin_machine(h.rec)
            h.cfg = cfg
            h._kw["extra_actions"] = {n: h.rec.marker(n) for n in ("mk:n1", "mk:n2", "mk:q1", "mk:q2")}
            return h, listener

        for hist, ev in (([], "GO"), ([], "NEST"), ([], "RAISE"), (["GO"], "BACK"), (["GO", "BACK"], "GO")):
            def run(sites_kind=None, targets=()):
                h, listener = make()
                d, _ = build(h, engine, hist)
                # three listeners reached by one emit: two under the event type, one under the wildcard
                d.interp.on("NOTE", listener("first"))
                d.interp.on("NOTE", listener("second"))
                d.interp.on("*", listener("wild"))
                mark = d.rec.mark()
                st = None
                if sites_kind:
                    fault, st = injector(h.rec, sites_kind, list(targets))
                    d.rec.fault = fault
                core.LOG.reset()
                err = d.send(ev)
                d.rec.fault = None
                return d, d.rec.since(mark), err, st

            d, twin_seg, err, _ = run()
            twin_state = d.observe()
            d.close()
            twin_markers = [e[1] for e in twin_seg if e[0] == "A"]
            res["transitions"] += 1
            res["states"] += 1
            for kind in ("action", "callback", "listener", "hook"):
                calls = [e for e in twin_seg if (kind == "action" and e[0] == "A") or (kind == "callback" and e[0] == "CB")
                         or (kind == "listener" and e[0] == "LISTEN") or (kind == "hook" and e[0] in HOOK_TAGS)]
                for i in range(len(calls)):
                    d2, seg, err, st = run((kind,), (i,))
                    try:
                        res["executions"] += 1
                        res["evaluations"] += 1
                        res["distinct_count"] += 1
                        got = [e[1] for e in seg if e[0] == "A"]
                        site = calls[i][1]
                        probs = []
                        if err is not None:
                            probs.append(("fault-escaped", repr(err)))
                        if d2.observe()[0] != twin_state[0] or d2.observe()[2] != twin_state[2]:
                            probs.append(("fault-changed-configuration-or-status", f"{d2.observe()[:3]} vs twin {twin_state[:3]}"))
                        if kind in ("listener", "hook"):
                            if got != twin_markers or d2.observe() != twin_state:
                                probs.append(("observer-fault-changed-run", f"markers {got} twin {twin_markers}"))
                            heard = [e[1] for e in seg if e[0] == "LISTEN"]
                            twin_heard = [e[1] for e in twin_seg if e[0] == "LISTEN"]
                            if heard != twin_heard:
                                probs.append(("observer-fault-silenced-other-listeners", f"listeners called {heard}, fault-free run {twin_heard}"))
                        else:
                            # which top-level list does the fault belong to?
                            if kind == "action":
                                idx = [j for j, e in enumerate(twin_seg) if e[0] == "A"][i]
                            else:
                                idx = [j for j, e in enumerate(twin_seg) if e[0] == "CB"][i]
                            before = [e[1] for e in twin_seg[:idx + 1] if e[0] == "A"]
                            after = [e[1] for e in twin_seg[idx + 1:] if e[0] == "A"]

                            def top(m):
                                k = m[:4]
                                return {"mk:n": "mk:o", "mk:q": "mk:o", "mk:c": "mk:o"}.get(k, k) if m[:4] in ("mk:n", "mk:q", "mk:c") else m[:5] if m.startswith("mk:en") or m.startswith("mk:ex") else m[:4]

                            # owning list of the faulted site
                            if kind == "action":
                                owner_top = top(twin_markers[i])
                                nested_owner = twin_markers[i][:4] if twin_markers[i][:4] in ("mk:n", "mk:q", "mk:c") else None
                            else:
                                # a callback belongs to the list being executed at that moment: that of the previous/next marker
                                ref = before[-1] if before else (after[0] if after else "")
                                owner_top = top(ref) if not site.startswith(("pure", "enqueue")) else "mk:o"
                                if site.startswith("assign.entry"):
                                    owner_top = "mk:en"
                                elif site.startswith("log.expr"):
                                    owner_top = "mk:ex"
                                elif site.split(".")[0] in ("assign", "emit"):
                                    owner_top = "mk:t"
                                elif site.split(".")[0] == "raise":
                                    owner_top = "mk:r"
                                nested_owner = None
                            # markers of other lists must be identical
                            # 'mk:rping' is the handler of the event raised by the RAISE list: it runs iff the raise ran
                            ign = {"mk:rping"}
                            raise_ran = any(e[0] == "AX" and e[1] == "xstate.raise" for e in seg) and not (kind == "callback" and site == "raise.event")
                            if ("mk:rping" in got) != (raise_ran and "mk:rping" in twin_markers):
                                probs.append(("raised-event-handling-changed", f"raise ran={raise_ran}, handler ran={'mk:rping' in got}"))
                            want_other = [m for m in twin_markers if top(m) != owner_top and m not in ign]
                            got_other = [m for m in got if top(m) != owner_top and m not in ign]
                            if want_other != got_other:
                                probs.append(("fault-changed-other-lists", f"other lists ran {got_other}, twin {want_other}"))
                            # the faulted list: nothing new, order kept
                            want_same = [m for m in twin_markers if top(m) == owner_top]
                            got_same = [m for m in got if top(m) == owner_top]
                            it = iter(want_same)
                            if not all(any(m == w for w in it) for m in got_same):
                                probs.append(("fault-reordered-list", f"{got_same} is not a subsequence of twin {want_same}"))
                            if not nested_owner and got_same != want_same[:len(got_same)]:
                                probs.append(("fault-list-not-a-prefix", f"{got_same} vs twin {want_same}"))
                            if nested_owner:
                                rest = [m for m in after if m[:4] == nested_owner]
                                if any(m in got for m in rest):
                                    probs.append(("fault-did-not-skip-rest-of-list", f"{rest} still ran"))
                            elif kind == "action":
                                rest = [m for m in after if top(m) == owner_top and m[:4] not in ("mk:n", "mk:q", "mk:c") and m != "mk:rping"]
                                ran = [m for m in rest if m in got]
                                if ran:
                                    probs.append(("fault-did-not-skip-rest-of-list", f"{ran} still ran"))
                            aes = [e for e in seg if e[0] == "AE"]
                            if len(aes) != 1:
                                probs.append(("on_action_error-count", f"{len(aes)} notifications for a raising {kind} ({site}); log {core.LOG.errors()[:1]}"))
                        for clause, detail in probs:
                            res["violations"].append(dict(
                                signature=f"C07|{clause}|{engine}|{kind}", clause=clause,
                                what=f"{engine}: {clause}: {detail}; raising {kind} '{site}' (occurrence {i}) in step {hist}+{ev} on BUILTIN machine",
                                size=len(hist), replay=dict(kind="builtin", engine=engine, hist=hist, ev=ev, site_kind=kind, index=i)))
                    finally:
                        d2.close()
    res["samples"].append(dict(machine="BUILTIN", faulted_runs=res["evaluations"]))
    return res


# ------------------------------------------------------------------ (c) ABORT family
async def async_action(interp, ctx, ev, ad):  # pragma: no cover - must never run on the sync engine
    return None


def abort_cases() -> List[tuple]:
    out = []
    for shape in ("atomic", "compound", "region"):
        for position in ("exit", "exit-child", "transition", "entry", "entry-child", "service", "target"):
            if position == "exit-child" and shape == "atomic":
                continue
            for fault in ("missing-action", "async-action"):
                if position in ("service", "target") and fault != "missing-action":
                    continue
                out.append((shape, position, fault))
    return out


def abort_cfg(shape: str, position: str, fault: str) -> Dict[str, Any]:
    bad = "nope" if fault == "missing-action" else "asyncact"
    src_exit = ["mk:ex_src"]
    tr_actions: List[Any] = ["mk:tr"]
    dst: Dict[str, Any] = {"entry": ["mk:en_dst"], "on": {"BACK": "#m.src"}}
    target = "#m.dst"
    child_exit = ["mk:ex_s1"]
    if position == "exit":
        src_exit = ["mk:ex_src", bad, "mk:ex_src2"]
    elif position == "exit-child":
        # the abort strikes in the exit list of the innermost state: its ancestors (and their timers) have not been touched
        child_exit = ["mk:ex_s1", bad]
    elif position == "transition":
        tr_actions = ["mk:tr", bad, "mk:tr2"]
    elif position == "entry":
        dst["entry"] = ["mk:en_dst", bad]
    elif position == "entry-child":
        dst = {"entry": ["mk:en_dst"], "initial": "d1", "states": {"d1": {"entry": [bad]}}, "on": {"BACK": "#m.src"}}
    elif position == "service":
        dst["invoke"] = {"src": "missingService"}
    elif position == "target":
        target = "#m.nowhere"
    go = {"target": target, "actions": tr_actions}
    if shape == "atomic":
        src = {"entry": ["mk:en_src"], "exit": src_exit, "after": {"500": {"target": "#m.timeout", "actions": ["mk:after_src"]}},
               "on": {"GO": go, "NOP": {"actions": ["mk:nop"]}}}
        states = {"src": src}
    elif shape == "compound":
        src = {"entry": ["mk:en_src"], "exit": src_exit, "initial": "s1",
               "after": {"500": {"target": "#m.timeout", "actions": ["mk:after_src"]}},
               "states": {"s1": {"after": {"250": {"actions": ["mk:after_s1"]}}, "exit": child_exit},
                          # (a history child: leaving src records history, an aborted leave must take that back)
                          "hist": {"type": "history"}},
               "on": {"GO": go, "NOP": {"actions": ["mk:nop"]}}}
        states = {"src": src}
    else:
        src = {"type": "parallel", "exit": src_exit,
               "states": {
                   "r1": {"initial": "x", "after": {"500": {"target": "#m.timeout", "actions": ["mk:after_src"]}},
                          "states": {"x": {"on": {"GO": go}}}},
                   "r2": {"initial": "y", "states": {"y": {"after": {"250": {"actions": ["mk:after_s1"]}}, "exit": child_exit}}},
               },
               "on": {"NOP": {"actions": ["mk:nop"]}}}
        states = {"src": src}
    states["dst"] = dst
    states["timeout"] = {"entry": ["mk:en_timeout"]}
    return {"id": "m", "initial": "src", "states": states}


def explore_abort() -> Dict[str, Any]:
    res = dict(states=0, transitions=0, executions=0, evaluations=0, distinct_count=0, violations=[], samples=[], caps=[])
    for case in abort_cases():
        shape, position, fault = case
        for engine in ENGINES:
            if fault == "async-action" and engine == "async":
                continue
            cfg = abort_cfg(*case)
            h = Harness(cfg, with_plugin=True, threads=True, extra_actions={"asyncact": async_action}, budget=3000,
                        missing_actions=["nope"])
            d = h.driver(engine)
            try:
                res["executions"] += 1
                res["evaluations"] += 1
                res["distinct_count"] += 1
                res["states"] += 1
                res["transitions"] += 1
                probs: List[Tuple[str, str]] = []
                err = d.start()
                if err is not None:
                    probs.append(("start-failed", repr(err)))
                before = d.observe()
                d.advance(0.125)
                core.LOG.reset()
                mark = d.rec.mark()
                err = d.send("GO")
                errors = core.LOG.errors()
                after = d.observe()
                if after[0] != before[0]:
                    probs.append(("configuration-not-restored", f"{before[0]} -> {after[0]}"))
                if after[1] != before[1]:
                    probs.append(("history-not-restored", f"history memory {before[1]} -> {after[1]}"))
                if after[2] != "running":
                    probs.append(("status-changed", f"{after[2]}"))
                if engine == "sync":
                    if not isinstance(err, XStateMachineError):
                        probs.append(("abort-not-raised-as-library-error", f"send() returned {err!r}"))
                else:
                    if err is not None:
                        probs.append(("abort-raised-from-async-send", repr(err)))
                    if not errors:
                        probs.append(("abort-not-logged", "no ERROR record"))
                # next events are handled
                m2 = d.rec.mark()
                perr = d.send("NOP")
                if perr is not None or not any(e[0] == "A" and e[1] == "mk:nop" for e in d.rec.since(m2)):
                    probs.append(("next-event-not-handled", f"{perr!r}"))
                # timers re-armed: the 250 ms and 500 ms timers must each fire exactly once, later
                m3 = d.rec.mark()
                # re-armed deadlines: 0.375 and 0.625; a second round is due from 0.875 on.  (exit-child: the source's own
                # timer was never torn down and stays due at 0.5; its attempt aborts again and re-arms the child for 0.75)
                d.advance(0.5 if position == "exit-child" else 0.625)
                fired = [e[1] for e in d.rec.since(m3) if e[0] == "A" and e[1].startswith("mk:after")]
                want = ["mk:after_src"] if shape == "atomic" else ["mk:after_s1", "mk:after_src"]
                if position in ("exit", "exit-child"):
                    # the source can never be left (its exit list aborts), so the 500 ms transition aborts
                    # too: the evidence that its timer was re-armed is the exit attempt it makes when it fires
                    want = [w for w in want if w != "mk:after_src"]
                    attempts = [e for e in d.rec.since(m3) if e[0] == "A" and e[1] == ("mk:ex_src" if position == "exit" else "mk:ex_s1")]
                    if len(attempts) != 1:
                        probs.append(("timers-not-re-armed-exactly-once", f"the source's own delayed transition was attempted {len(attempts)} times after the abort"))
                if sorted(fired) != sorted(want):
                    probs.append(("timers-not-re-armed-exactly-once", f"after the abort the timers fired {fired}, expected {want}"))
                for clause, detail in probs:
                    res["violations"].append(dict(
                        signature=f"C07|{clause}|{engine}|{position}", clause=clause,
                        what=f"{engine}: {clause}: {detail}; aborting fault {fault} at {position} position, source shape {shape}",
                        size=1, replay=dict(kind="abort", case=list(case), engine=engine)))
            finally:
                d.close()
    # ---- an abort must not take earlier, committed work with it: events raised by a transition that completed are still
    #      processed after a LATER event of the same drain aborted
    for engine in ENGINES:
        cfg = {"id": "m", "initial": "a", "states": {
            "a": {"on": {"GO": {"target": "b", "actions": [A.raise_("R1"), A.raise_("R2"), "mk:go"]}}},
            "b": {"on": {"R1": {"target": "c", "actions": ["nope"]}, "R2": {"actions": ["mk:r2"]}, "NOP": {"actions": ["mk:nop"]}}},
            "c": {}}}
        h = Harness(cfg, with_plugin=True, threads=True, budget=3000, missing_actions=["nope"])
        d = h.driver(engine)
        try:
            res["executions"] += 1
            res["evaluations"] += 1
            res["distinct_count"] += 1
            d.start()
            d.send("GO")
            d.settle()
            d.send("NOP")
            d.settle()
            names = [e[1] for e in d.rec.log if e[0] == "A"]
            conf = d.observe()[0]
            probs = []
            if names.count("mk:r2") != 1:
                probs.append(("abort-dropped-queued-events", f"R2 was raised by the committed GO transition before R1's handler aborted; it was handled {names.count('mk:r2')} times (actions {names})"))
            if tuple(conf) != ("m", "m.b"):
                probs.append(("configuration-not-restored", f"{conf}"))
            if names.count("mk:nop") != 1:
                probs.append(("next-event-not-handled", f"{names}"))
            for clause, detail in probs:
                res["violations"].append(dict(signature=f"C07|{clause}|{engine}|later-event-of-the-drain", clause=clause,
                                              what=f"{engine}: {clause}: {detail}", size=1, replay=dict(kind="abort", case=["raise-then-abort"], engine=engine)))
        finally:
            d.close()
    # ---- history memory that ALREADY holds a record: an aborted leave must put the earlier record back (not only remove a
    #      first record), and a later history transition must behave as in the run without the aborted event
    for engine in ENGINES:
        for fault_pos in ("transition", "entry"):
            bad_tr = {"target": "#m.Q", "actions": ["nope"]} if fault_pos == "transition" else {"target": "#m.R"}
            cfg = {"id": "m", "initial": "P", "states": {
                "P": {"initial": "a", "on": {"OUT": "#m.Q", "BAD": bad_tr, "UNDO": "#m.P.hist"},
                      "states": {"a": {"on": {"NEXT": "b"}}, "b": {"on": {"NEXT": "c"}}, "c": {}, "hist": {"type": "history"}}},
                "Q": {"on": {"BACK": "#m.P"}},
                "R": {"entry": ["nope"]}}}
            runs = {}
            for with_abort in (False, True):
                h = Harness(cfg, with_plugin=True, threads=True, budget=3000, missing_actions=["nope"])
                d = h.driver(engine)
                try:
                    res["executions"] += 1
                    d.start()
                    for ev in ("OUT", "BACK", "NEXT"):       # history of P now holds [a]; P is in b
                        d.send(ev)
                    mem_before = d.observe()[1]
                    if with_abort:
                        d.send("BAD")
                        d.settle()
                    mem_after = d.observe()[1]
                    d.send("UNDO")
                    d.settle()
                    runs[with_abort] = (mem_before, mem_after, d.observe()[0])
                finally:
                    d.close()
            res["evaluations"] += 1
            res["distinct_count"] += 1
            probs = []
            if runs[True][1] != runs[True][0]:
                probs.append(("history-not-restored", f"an existing history record {runs[True][0]} became {runs[True][1]} through an aborted transition"))
            if runs[True][2] != runs[False][2]:
                probs.append(("aborted-transition-changed-a-later-history-transition", f"UNDO ends in {runs[True][2]}, without the aborted event in {runs[False][2]}"))
            for clause, detail in probs:
                res["violations"].append(dict(signature=f"C07|{clause}|{engine}|existing-record", clause=clause,
                                              what=f"{engine}: {clause}: {detail}; OUT, BACK, NEXT, BAD [aborts at the {fault_pos} position], UNDO",
                                              size=1, replay=dict(kind="abort", case=["history-existing-record"], engine=engine)))
    # ---- one event, two regions: the first region's transition commits and lands in a state with an eventless (always)
    #      transition, the second region's transition aborts.  The committed part of the step still has to settle: the
    #      machine must not rest in a state whose always-transition is enabled until some later event happens along
    for engine in ENGINES:
        cfg = {"id": "m", "type": "parallel", "states": {
            "a": {"initial": "a1", "states": {"a1": {"on": {"E": "a2"}}, "a2": {"always": {"target": "a3", "actions": ["mk:settled"]}}, "a3": {}}},
            "b": {"initial": "b1", "states": {"b1": {"on": {"E": {"target": "b2", "actions": ["nope"]}}}, "b2": {}}}},
            "on": {"NOP": {"actions": ["mk:nop"]}}}
        h = Harness(cfg, with_plugin=True, threads=True, budget=3000, missing_actions=["nope"], extra_markers=["mk:settled"])
        d = h.driver(engine)
        try:
            res["executions"] += 1
            res["evaluations"] += 1
            res["distinct_count"] += 1
            d.start()
            d.send("E")
            d.settle()
            conf = d.observe()[0]
            if "m.a.a2" in conf:
                res["violations"].append(dict(
                    signature=f"C07|abort-in-one-region-leaves-the-committed-region-unsettled|{engine}", clause="macrostep-not-settled-after-abort",
                    what=f"{engine}: region a committed a1 -> a2 (a2 has an enabled always -> a3), region b's transition of the same event aborted: "
                         f"the machine rests in {conf}; the always-transition only runs when the next event arrives",
                    size=1, replay=dict(kind="abort", case=["abort-unsettled"], engine=engine)))
        finally:
            d.close()
    res["samples"].append(dict(family="ABORT", cases=len(abort_cases()) + 7))
    return res


# ------------------------------------------------------------------ lifecycle hooks
LIFE_SCENARIOS = {"svc-ok": ["GO"], "svc-fails-unhandled": ["BAD"], "svc-fails-handled": ["BAD2"], "final": ["FIN"], "action-raises": ["ACT"]}


def life_cfg(rec=None) -> Dict[str, Any]:
    def out_cb(name, value):
        def f(args):
            if rec is not None:
                rec.log.append(("CB", name))
                if rec.fault is not None:
                    rec.fault("callback", name)
            return value
        return f

    return {"id": "m", "initial": "idle", "output": out_cb("machine_output", {"m": 1}), "states": {
        "idle": {"on": {"GO": "work", "BAD": "bad", "BAD2": "bad2", "FIN": "fin", "ACT": {"actions": ["mk:a1", "boom", "mk:a2"]}}},
        "work": {"invoke": {"id": "ok", "src": "svc_ok", "onDone": {"target": "idle", "actions": ["mk:done"]}}},
        "bad": {"invoke": {"id": "ko", "src": "svc_fail"}},
        "bad2": {"invoke": {"id": "ko2", "src": "svc_fail", "onError": {"target": "idle", "actions": ["mk:handled"]}}},
        "fin": {"type": "final", "output": out_cb("final_output", {"f": 1})}}}


def explore_lifecycle_hooks() -> Dict[str, Any]:
    """Whole runs (start, one event, settle, stop) in which every occurrence of every plugin hook - on_interpreter_start/stop,
    on_service_start/done/error, on_action_error, on_done, on_error included - raises, compared with the fault-free twin."""
    res = dict(states=0, transitions=0, executions=0, evaluations=0, distinct_count=0, violations=[], samples=[], caps=[])

    def run(engine, evs, fault):
        is_async = engine == "async"
        if is_async:
            async def svc_ok(i, c, e):
                return 1

            async def svc_fail(i, c, e):
                raise ValueError("service fails")
        else:
            def svc_ok(i, c, e):
                return 1

            def svc_fail(i, c, e):
                raise ValueError("service fails")

        def boom(i, c, e, a):
            raise ValueError("action fails")

        h = Harness({"id": "x", "states": {}}, services={"svc_ok": svc_ok, "svc_fail": svc_fail}, extra_actions={"boom": boom}, with_plugin=True, threads=True)
        h.cfg = life_cfg(h.rec)
        d = h.driver(engine)
        try:
            d.rec.fault = fault
            errs = [d.start()]
            for ev in evs:
                errs.append(d.send(ev))
                d.settle()
            before_stop = d.observe()
            errs.append(d.stop())
            d.rec.fault = None
            log = list(d.rec.log)
            return dict(markers=[e[1] for e in log if e[0] == "A"], hooks=[e[0] for e in log if e[0] in HOOK_TAGS],
                        callbacks=[e[1] for e in log if e[0] == "CB"],
                        state=before_stop[:3], after=d.observe()[:3], errs=[repr(e) if e is not None else None for e in errs])
        finally:
            d.close()

    for engine in ENGINES:
        for scen, evs in LIFE_SCENARIOS.items():
            twin = run(engine, evs, None)
            n_hooks = len(twin["hooks"])
            for i in range(n_hooks):
                fault, st = injector(None, ("hook",), [i])
                out = run(engine, evs, fault)
                res["executions"] += 1
                res["evaluations"] += 1
                res["distinct_count"] += 1
                for key, clause in (("markers", "observer-fault-changed-actions"), ("state", "observer-fault-changed-outcome"),
                                    ("after", "observer-fault-changed-outcome"), ("errs", "observer-fault-escaped")):
                    if out[key] != twin[key]:
                        res["violations"].append(dict(
                            signature=f"C07|{clause}|{engine}|hook:{twin['hooks'][i]}", clause=clause,
                            what=f"{engine}: {clause}: hook occurrence {i} ({twin['hooks'][i]}) raising in scenario {scen}: {key} {out[key]} vs fault-free {twin[key]}",
                            size=i, replay=dict(kind="life", engine=engine, scenario=scen, site=i)))
                        break
            # output callables (final state's and the machine's) raising: only the output may change
            for i, cbname in enumerate(twin["callbacks"]):
                fault, st = injector(None, ("callback",), [i])
                out = run(engine, evs, fault)
                res["executions"] += 1
                res["evaluations"] += 1
                res["distinct_count"] += 1
                for key, clause in (("markers", "output-fault-changed-actions"), ("state", "output-fault-changed-outcome"),
                                    ("after", "output-fault-changed-outcome"), ("errs", "output-fault-escaped")):
                    if out[key] != twin[key]:
                        res["violations"].append(dict(
                            signature=f"C07|{clause}|{engine}|callback:{cbname}", clause=clause,
                            what=f"{engine}: {clause}: output callable occurrence {i} ({cbname}) raising in scenario {scen}: {key} {out[key]} vs fault-free {twin[key]}",
                            size=i, replay=dict(kind="life", engine=engine, scenario=scen, site=i)))
                        break
            res["samples"].append(dict(kind="lifecycle hooks", engine=engine, scenario=scen, hook_occurrences=n_hooks, hooks=twin["hooks"], output_callables=twin["callbacks"]))
    return res


def units(tier: str) -> List[Any]:
    us: List[Any] = [("tree", t, tier) for t in F.trees_upto(3)]
    us.append(("life", None, tier))
    if tier == "thorough":
        us += [("tree", t, "quick") for t in F.trees_exact(4)]
    us.append(("builtin", None, tier))
    us.append(("abort", None, tier))
    return us


def run_unit(unit):
    kind, payload, tier = unit
    if kind == "tree":
        return explore_tree(payload, tier)
    if kind == "builtin":
        return explore_builtin(tier)
    if kind == "life":
        return explore_lifecycle_hooks()
    return explore_abort()


def replay(payload):
    from .c01 import _tuplify

    if payload["kind"] == "tree":
        res = explore_tree(_tuplify(payload["tree"]), "thorough")
        out = [v for v in res["violations"] if v["replay"]["hist"] == payload["hist"] and v["replay"]["ev"] == payload["ev"]
               and v["replay"]["sites"] == payload["sites"] and v["replay"]["engine"] == payload["engine"]]
    elif payload["kind"] == "life":
        res = explore_lifecycle_hooks()
        out = [v for v in res["violations"] if v["replay"] == payload]
    elif payload["kind"] == "builtin":
        res = explore_builtin("quick")
        out = [v for v in res["violations"] if v["replay"] == payload]
    else:
        res = explore_abort()
        out = [v for v in res["violations"] if v["replay"]["case"] == payload["case"] and v["replay"]["engine"] == payload["engine"]]
    for v in out:
        print("  ", v["what"])
    return out
