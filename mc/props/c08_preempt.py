"""C08, sync engine, thread slice: a caller leaving and re-entering a state against that state's after-timer threads,
every interleaving (<= bound preemptions) at line granularity inside the timer thread body / _cancel_state_tasks /
send / _process_event_queue.  Virtual time only moves when a timer's wait times out."""
from __future__ import annotations

from typing import Any, Dict, List

from xstate_statemachine import MachineLogic, SyncInterpreter, create_machine

from .. import e2
from ..preempt import drive
from ..threads import Installed
from .c14_preempt import inner_code

DELAY = 0.05
VARIANTS: Dict[str, List[str]] = {
    "leave": ["LEAVE"],
    "leave-back": ["LEAVE", "BACK"],
    "self-reenter": ["AGAIN"],
    "leave-back-leave": ["LEAVE", "BACK", "LEAVE"],
}


def config() -> Dict[str, Any]:
    return {"id": "m", "initial": "a", "states": {
        "a": {"entry": ["enter_a"], "exit": ["exit_a"], "after": {"50": {"actions": ["tick"]}},
              "on": {"LEAVE": "b", "AGAIN": {"target": "a", "reenter": True}}},
        "b": {"on": {"BACK": "a"}}}}


def run(variant: str, ch: e2.Choices, bound: int) -> Dict[str, Any]:
    ops = VARIANTS[variant]
    inst = Installed()
    sched = inst.__enter__()
    it = None
    try:
        log: List[tuple] = []

        def mk(name):
            def act(i, c, e, a):
                log.append((name, round(sched.now, 6)))
            return act

        logic = MachineLogic(actions={n: mk(n) for n in ("enter_a", "exit_a", "tick")})
        it = SyncInterpreter(create_machine(config(), logic=logic))
        cls = SyncInterpreter
        sched.trace_codes = {cls.send.__code__, cls._process_event_queue.__code__, cls._cancel_state_tasks.__code__,
                             inner_code(cls._after_timer, "timer_thread")}
        it.start()

        def body():
            for op in ops:
                it.send(op)
        sched.spawn(body, "p1")
        d = drive(sched, ch, bound)
        bad: List[tuple] = []
        if d["capped"]:
            bad.append(("does-not-quiesce", f"{d['steps']} steps"))
        crashed = [t for t in sched.threads if t.exc is not None]
        if crashed:
            bad.append(("thread-raised", f"{crashed[0].name}: {crashed[0].exc!r}"))
        # reference: activations of `a` as (entered, exited) intervals in virtual time; a tick belongs to the activation that
        # is open when it runs, needs entered + delay <= now, and each activation ticks at most once (targetless after)
        acts: List[List[Any]] = []
        for name, t in log:
            if name == "enter_a":
                acts.append([t, None, 0])
            elif name == "exit_a":
                acts[-1][1] = t
            elif name == "tick":
                if not acts or acts[-1][1] is not None:
                    bad.append(("fired-after-exit", f"tick at {t} while 'a' is not active: {log}"))
                else:
                    acts[-1][2] += 1
                    if t + 1e-9 < acts[-1][0] + DELAY:
                        bad.append(("fired-early", f"tick at {t} in the activation entered at {acts[-1][0]} (due {acts[-1][0] + DELAY}): {log}"))
                    if acts[-1][2] > 1:
                        bad.append(("fired-twice", f"{log}"))
        # every activation that stayed open until quiescence has had its timer expire (all threads are done): exactly one tick
        if acts and acts[-1][1] is None and acts[-1][2] != 1 and not bad:
            bad.append(("never-fired", f"the last activation of 'a' stayed active, its timer thread ended, no tick: {log}"))
        alive = [t.name.split("::")[0] for t in sched.live()]
        if alive:
            bad.append(("timer-thread-leaked", f"{alive} still alive at quiescence"))
        order = tuple(log)
        return dict(key=order, bad=bad, order=order, schedule=d["schedule"], preemptions=d["preemptions"])
    finally:
        try:
            if it is not None:
                it.stop()
        finally:
            inst.__exit__(None, None, None)


def explore(variant: str, bound: int, max_execs: int = 60000, root=None):
    results = []

    def on_exec(ch, out):
        results.append((list(ch.taken), out))

    n, capped = e2.explore(lambda ch: run(variant, ch, bound), on_exec=on_exec, max_execs=max_execs, root=root)
    return results, n, capped
