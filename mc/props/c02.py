"""C02 — selection: deepest handler, first enabled candidate, once per region.

(a) SEL family: ancestor chains with 0-2 candidates per level and parallel
    machines with handlers on leaves, regions, the shared parallel ancestor and
    the root (including winners that exit the parallel state), crossed with every
    guard valuation in {true,false,raise}^n and several configurations, both
    engines, against a reference nominator written from the statement.
(b) every (reachable state, event) pair of the TREE(N) universal machines,
    including events nobody handles: unhandled = perfect no-op, and can().
"""
from __future__ import annotations

import itertools
from typing import Any, Dict, List, Optional, Tuple

from .. import families as F
from ..drivers import Harness
from ..e1 import bfs, build

LEVEL = "model_checking"
RULE = (
    "SEL: chain skeleton m>a>b>c with 0..2 guarded candidates per level (bounded total) and parallel skeleton "
    "m>p(r1{x1,x2}, r2{y1,y2}[, r3]) + out with optional handlers on x1,y1,r1,r2,p,m (targetless / sibling / leaving "
    "the parallel state); each machine once with one guard name per candidate and once with ONE guard name shared by all candidates (params differ); chains also with the second candidate of a level declared under the wildcard key; every guard valuation in {true,false,raise}^n; configurations reached by set-up events; "
    "each case = fresh interpreter + send(E) + can(E); oracle = reference nominator; NOOP: BFS closure of TREE(N) "
    "universal machines with the full event alphabet (active-source, inactive-source and unknown events) per state; "
    "distinct_nontrivial = distinct (machine shape, valuation, configuration) cases + distinct (machine, state, event) "
    "pairs"
)
BOUNDS = {
    "quick": "chains: <=5 candidates (3^n valuations); parallel: 2 regions, 2 configurations, 3^n valuations for n<=4 and 2^n above; NOOP: TREE(N<=4)",
    "thorough": "chains: <=6 candidates; parallel: 2 regions x 4 configurations + 3 regions; NOOP: TREE(N<=5)",
}
ASSUMPTIONS = [
    "the statement does not fix the execution order among nominees; any order is accepted",
    "a nominee that did not fire must have had its source exited during the same step; a nominee that fired must have had its source in the configuration left by the previous winner of the step",
]
ENGINES = ("sync", "async")
VALS = (True, False, "raise")


# ------------------------------------------------------------------ SEL specs
def chain_specs(maxc: int) -> List[Any]:
    out = []
    for counts in itertools.product((0, 1, 2), repeat=4):
        if 0 < sum(counts) <= maxc:
            out.append(("chain", counts))
    return out


X_OPTS = (None, "tl", "sib", "out")
R_OPTS = (None, "tl", "out")
P_OPTS = (None, "tl", "out")
M_OPTS = (None, "tl")


def par_specs(regions: int) -> List[Any]:
    out = []
    if regions == 2:
        for x1, y1, r1, r2, p, m in itertools.product(X_OPTS, X_OPTS, R_OPTS, R_OPTS, P_OPTS, M_OPTS):
            if any((x1, y1, r1, r2, p, m)):
                out.append(("par", (x1, y1, None, r1, r2, None, p, m)))
    else:
        # three regions: leaf handlers + shared ancestors only
        for x1, y1, z1, p, m in itertools.product(X_OPTS, X_OPTS, X_OPTS, P_OPTS, M_OPTS):
            if sum(1 for v in (x1, y1, z1) if v) >= 2:
                out.append(("par3", (x1, y1, z1, None, None, None, p, m)))
    return out


def build_sel(spec, shared: bool = False, wild: bool = False):
    """Returns (cfg, candidates) with candidates = list of dict(src, name, guard, target, order).
    shared=True: every candidate uses the SAME guard name 'gshared' and differs only in its params - a candidate must be
    judged by its own guard (name AND params), not by whatever another candidate with that name evaluated to."""
    kind, par = spec
    cands: List[Dict[str, Any]] = []

    def cand(src, i, target=None):
        name = f"{src.replace('.', '_')}_{i}"
        c = dict(src=src, name=name, guard=f"g_{name}", target=target, idx=len(cands))
        cands.append(c)
        t: Dict[str, Any] = {"guard": ({"type": "gshared", "params": {"k": c["guard"]}} if shared else c["guard"]), "actions": [f"tr:{name}"]}
        if target:
            t["target"] = target
        return t

    if kind == "chain":
        ids = ["m", "m.a", "m.a.b", "m.a.b.c"]
        ons = []
        for lvl, n in enumerate(par):
            cs = [cand(ids[lvl], i) for i in range(n)]
            if wild and n == 2:
                # the second candidate of the level is declared under the wildcard descriptor: still a candidate for E, after
                # the exact-key one
                ons.append({"E": [cs[0]], "*": [cs[1]]})
            else:
                ons.append({"E": cs} if n else {})
        cfg = {
            "id": "m", "initial": "a", "on": ons[0],
            "states": {"a": {"initial": "b", "on": ons[1], "states": {
                "b": {"initial": "c", "on": ons[2], "states": {"c": {"on": ons[3]}, "c2": {}}}}}},
        }
        return cfg, cands, []
    x1, y1, z1, r1, r2, r3, p, m = par

    def leaf_on(src, opt, sib):
        if not opt:
            return {}
        tgt = {"tl": None, "sib": sib, "out": "#m.out"}[opt]
        return {"E": [cand(src, 0, tgt)]}

    def anc_on(src, opt):
        if not opt:
            return {}
        return {"E": [cand(src, 0, None if opt == "tl" else "#m.out")]}

    regions: Dict[str, Any] = {}
    setups = []
    for rname, a, b, lopt, ropt in (("r1", "x1", "x2", x1, r1), ("r2", "y1", "y2", y1, r2), ("r3", "z1", "z2", z1, r3)):
        if rname == "r3" and kind != "par3":
            continue
        on1 = leaf_on(f"m.p.{rname}.{a}", lopt, b)
        on1[f"S_{rname}"] = {"target": b}
        setups.append(f"S_{rname}")
        regions[rname] = {"initial": a, "on": anc_on(f"m.p.{rname}", ropt), "states": {a: {"on": on1}, b: {}}}
    cfg = {
        "id": "m", "initial": "p", "on": anc_on("m", m),
        "states": {"p": {"type": "parallel", "on": anc_on("m.p", p), "states": regions}, "out": {}},
    }
    return cfg, cands, setups


# ------------------------------------------------------------------ reference
def nominate(cands, conf: List[str], val: Dict[str, Any], leaves: List[str]) -> Dict[str, Optional[int]]:
    """leaf id -> index of its nominee (or None)."""
    out: Dict[str, Optional[int]] = {}
    by_src: Dict[str, List[Dict[str, Any]]] = {}
    for c in cands:
        by_src.setdefault(c["src"], []).append(c)
    for leaf in leaves:
        cur = leaf
        nom = None
        while True:
            for c in by_src.get(cur, []):
                if val[c["guard"]] is True:
                    nom = c["idx"]
                    break
            if nom is not None or "." not in cur:
                break
            cur = cur.rsplit(".", 1)[0]
        out[leaf] = nom
    return out


def leaves_of(conf: List[str]) -> List[str]:
    s = set(conf)
    return [c for c in conf if not any(o != c and o.startswith(c + ".") for o in s)]


def run_sel(spec, tier, res, viol):
    for shared in (False, True):
        _run_sel(spec, tier, res, viol, shared)
    if spec[0] == "chain" and 2 in spec[1]:
        _run_sel(spec, tier, res, viol, False, wild=True)


def _run_sel(spec, tier, res, viol, shared, wild=False):
    cfg, cands, setups = build_sel(spec, shared, wild)
    gnames = [c["guard"] for c in cands]
    setup_sets: List[Tuple[str, ...]] = [()]
    if spec[0] in ("par", "par3"):
        if tier == "quick" or spec[0] == "par3":
            setup_sets = [(), (setups[0],)]
        else:
            setup_sets = [s for n in range(len(setups) + 1) for s in itertools.combinations(setups, n)]
    for engine in ENGINES:
        h = Harness(cfg, guards=gnames, with_plugin=True, budget=None)
        if shared:
            def gshared(ctx, event, params=None, _h=h):
                return _h.rec.guard(params["k"])(ctx, event, params)

            h._kw["extra_guards"] = {"gshared": gshared}
        vset = VALS if (tier == "thorough" or len(gnames) <= 4 or spec[0] == "chain") else (True, False)
        for vals in itertools.product(vset, repeat=len(gnames)):
            val = dict(zip(gnames, vals))
            h.rec.guard_vals = val
            for ss in setup_sets:
                d = h.driver(engine)
                try:
                    err = d.start()
                    for s in ss:
                        d.send(s)
                    before = d.observe()
                    conf = list(before[0])
                    noms = nominate(cands, conf, val, leaves_of(conf))
                    nomset = sorted({i for i in noms.values() if i is not None})
                    can = d.can("E")
                    after_can = d.observe()
                    mark = d.rec.mark()
                    err = d.send("E")
                    seg = d.rec.since(mark)
                    fired = [e[1][3:] for e in seg if e[0] == "A" and e[1].startswith("tr:")]
                    res["evaluations"] += 1
                    res["distinct"].append(hash((repr(spec), vals, ss, shared, wild)))
                    probs = []
                    if err is not None:
                        probs.append(("exception", repr(err)))
                    names = {c["name"]: c["idx"] for c in cands}
                    fired_idx = [names[f] for f in fired]
                    if len(set(fired_idx)) != len(fired_idx):
                        probs.append(("fired-more-than-once", f"{fired}"))
                    # a winner whose source was exited by an earlier winner of the same step is skipped: walk the step, the
                    # configuration after each completed transition is on its on_transition record
                    live = set(conf)
                    for e in seg:
                        if e[0] == "TR":
                            live = set(e[5])
                        elif e[0] == "A" and e[1].startswith("tr:") and e[1][3:] in names:
                            c = cands[names[e[1][3:]]]
                            if c["src"] not in live:
                                probs.append(("fired-after-source-exited", f"{c['name']} ran although {c['src']} had been exited by an earlier winner (live {sorted(live)})"))
                    extra = [cands[i]["name"] for i in fired_idx if i not in nomset]
                    if extra:
                        probs.append(("non-nominee-fired", f"{extra} (nominees {[cands[i]['name'] for i in nomset]})"))
                    missing = [i for i in nomset if i not in fired_idx]
                    if missing:
                        # allowed only when the source was exited by an earlier winner
                        after_conf = set(d.observe()[0])
                        for i in missing:
                            src = cands[i]["src"]
                            exited = src not in after_conf
                            if not exited or not fired_idx:
                                probs.append(("nominee-did-not-fire", f"{cands[i]['name']} (fired {fired})"))
                    if can != bool(nomset):
                        probs.append(("can()", f"can(E)={can} but nominees={[cands[i]['name'] for i in nomset]}"))
                    if after_can != before:
                        probs.append(("can()-changed-state", f"{before} -> {after_can}"))
                    if not nomset:
                        if d.observe() != before:
                            probs.append(("no-nominee-but-state-changed", f"{before} -> {d.observe()}"))
                        if any(e[0] in ("A", "TR") for e in seg) or sum(1 for e in seg if e[0] == "EV") != 1:
                            probs.append(("no-nominee-but-something-ran", f"{[e[:2] for e in seg if e[0] in ('A','TR','EV')]}"))
                    for clause, detail in probs:
                        viol.append(dict(
                            signature=f"C02|{clause}|{spec[0]}{'|same-guard-name' if shared else ''}{'|exact+wildcard-keys' if wild else ''}",
                            clause=clause,
                            what=f"{engine}: {clause}: {detail}; spec {spec}{' (all candidates share the guard name, params differ)' if shared else ''} valuation {val} setup {ss} configuration {conf}",
                            size=len(gnames) * 10 + len(ss),
                            replay=dict(kind="sel", spec=spec, engine=engine, vals=list(vals), setup=list(ss), tier=tier, shared=shared, wild=wild),
                        ))
                finally:
                    d.close()
                res["executions"] += 1


# ------------------------------------------------------------------ NOOP part
def run_noop(tree, res, viol):
    cfg, nodes, events = F.universal_config(tree)
    byid = {n.id: n for n in nodes}
    alphabet = list(events) + ["ZZZ", "done.state.m", "a.b"]
    for engine in ENGINES:
        h = Harness(cfg, with_plugin=True)

        def on_state(d, hist):
            return F.legal_configuration(byid, d.observe()[0]) is None

        def on_step(d, hist, ev, mark, key_before):
            conf = set(key_before[0])
            handled = ev in events and events[ev]["src"] in conf
            seg = d.rec.since(mark)
            res["distinct"].append(hash((F.tree_str(tree), engine, key_before[0], key_before[1], ev)))
            probs = []
            if handled:
                fired = [e[1][3:] for e in seg if e[0] == "A" and e[1].startswith("tr:")]
                if fired != [ev]:
                    probs.append(("handled-event-fired-wrong-set", f"{fired}"))
            else:
                if d.observe() != key_before:
                    probs.append(("unhandled-event-changed-state", f"{key_before} -> {d.observe()}"))
                if any(e[0] in ("A", "TR", "AX", "GE") for e in seg) or sum(1 for e in seg if e[0] == "EV") != 1:
                    probs.append(("unhandled-event-ran-something", f"{[e[:2] for e in seg]}"))
            for clause, detail in probs:
                viol.append(dict(signature=f"C02|{clause}|noop", clause=clause,
                                 what=f"{engine}: {clause}: {detail}; after {hist + [ev]} on {F.tree_str(tree)}",
                                 size=len(hist) + len(nodes) * 10,
                                 replay=dict(kind="noop", tree=tree, engine=engine, hist=hist + [ev])))
            return True

        def menu(d):
            o = d.observe()
            if o[2] != "running":
                return []
            conf = set(o[0])
            # can() for the whole alphabet in this state
            for ev in alphabet:
                want = ev in events and events[ev]["src"] in conf
                got = d.can(ev)
                if got != want or d.observe() != o:
                    viol.append(dict(signature="C02|can()|noop", clause="can()",
                                     what=f"{engine}: can({ev})={got}, handler active={want}, state changed={d.observe() != o}; conf {sorted(conf)} on {F.tree_str(tree)}",
                                     size=len(nodes) * 10, replay=dict(kind="noop", tree=tree, engine=engine, hist=[])))
                res["evaluations"] += 1
            return alphabet

        cl = bfs(h, engine, menu, on_state, on_step)
        res["states"] += cl.states
        res["transitions"] += cl.transitions
        res["executions"] += cl.executions
        res["evaluations"] += cl.transitions


def units(tier: str) -> List[Any]:
    us: List[Any] = []
    us += [("sel", s, tier) for s in chain_specs(5 if tier == "quick" else 6)]
    pars = par_specs(2)
    if tier == "thorough":
        pars += par_specs(3)
    # batch parallel specs
    for i in range(0, len(pars), 12):
        us.append(("selbatch", pars[i:i + 12], tier))
    for t in F.trees_upto(4 if tier == "quick" else 5):
        us.append(("noop", t, tier))
    return us


def run_unit(unit):
    kind, payload, tier = unit
    res = dict(states=0, transitions=0, executions=0, evaluations=0, distinct=[], violations=[], samples=[], caps=[])
    viol: List[Dict[str, Any]] = []
    if kind == "sel":
        run_sel(payload, tier, res, viol)
        res["samples"].append(dict(kind="sel", spec=payload, valuations=3 ** sum(payload[1]) if payload[0] == "chain" else None))
    elif kind == "selbatch":
        for s in payload:
            run_sel(s, tier, res, viol)
        res["samples"].append(dict(kind="sel", spec=payload[0]))
    else:
        run_noop(payload, res, viol)
        res["samples"].append(dict(kind="noop", tree=F.tree_str(payload), states=res["states"], transitions=res["transitions"]))
    if kind != "noop":
        res["states"] = res["executions"]
        res["transitions"] = res["evaluations"]
    res["violations"] = viol
    return res


def replay(payload):
    from .c01 import _tuplify

    res = dict(states=0, transitions=0, executions=0, evaluations=0, distinct=[])
    viol: List[Dict[str, Any]] = []
    if payload["kind"] == "sel":
        run_sel(_tuplify(payload["spec"]), payload.get("tier", "thorough"), res, viol)
        want = (payload["engine"], payload["vals"], payload["setup"])
        viol = [v for v in viol if (v["replay"]["engine"], v["replay"]["vals"], v["replay"]["setup"]) == want]
    else:
        run_noop(_tuplify(payload["tree"]), res, viol)
        viol = [v for v in viol if v["replay"]["hist"] == payload["hist"] and v["replay"]["engine"] == payload["engine"]]
    for v in viol:
        print("  ", v["what"])
    return viol
