"""C14 — interpreter lifecycle is a strict state machine; stop() releases everything.

E1 over OPERATION sequences (not just events): start, send(E/FIN/FAIL/SPAWN/ARM/
BACK), stop, TICK (virtual time passes), snapshot∘restore, snapshot∘restore∘start,
all sequences to the depth bound with canonical-state deduplication, on both
engines (VLoop / thread shim), against the specification automaton of the
statement and a census of tasks, threads, timers and actors after stop().
"""
from __future__ import annotations

import asyncio
import collections
from typing import Any, Dict, List, Optional, Tuple

from xstate_statemachine import Interpreter, MachineLogic, SyncInterpreter, create_machine
from xstate_statemachine import actions as A
from xstate_statemachine.exceptions import XStateMachineError

from .. import core
from ..core import Budget
from ..drivers import AsyncDriver, Harness, SyncDriver, canon_interp

UNIT_TIMEOUT = 900  # backstop against a hung unit only; thread-slice subtrees can take minutes on a loaded machine
LEVEL = "model_checking"
RULE = (
    "LIFE machine (idle / armed[after-timer + invoked child machine + delayed send] / done[final state that itself invokes a failing service] / failing[unhandled service "
    "error], spawnChild with systemId whose child arms delayed sendParent with and without a send id, stopChild); "
    "operation alphabet {start, E, FIN, FAIL, SPAWN, KILL, ARM, BACK, stop, TICK (1 s), WAIT (30 ms: only polling helper threads move), MID (320 ms: between deadlines armed together), "
    "snapshot+restore, snapshot+restore+start}; BFS over operation sequences to the depth bound, deduplicated by "
    "canonical state (status, configuration, context, actors, registry, pending timer/thread census, loop-task "
    "liveness, restored flag); every (state, op) step is judged: allowed status edge, start idempotent / refused after "
    "stop, send inert when done/error/stopped, stop harmless in every status and leaving nothing alive, nothing "
    "delivered after stop even when virtual time passes. Sync threads (E3p): stop() on one virtual thread against an after-timer "
    "thread, a caller thread and a second stop(), every interleaving at line granularity inside stop / send / _process_event_queue / "
    "the timer thread body with at most the stated preemptions; machines that become done / stopped / failed INSIDE start() with a raised event still queued (nothing may run for it); async: 2 and 3 start() calls issued in the same loop iteration while the initial entry is suspended (one run loop, nothing processed before the entry finished); oracle for threads: no thread raises, status stopped, nothing runs in a send() "
    "that started after stop() returned, no thread left alive, queue empty; distinct_nontrivial = distinct canonical states + distinct schedules"
)
BOUNDS = {"quick": "depth 5, both engines; sync threads: stop() vs after-timer / caller threads, every line-level interleaving with <=1-2 preemptions", "thorough": "depth 7, both engines; sync threads: <=2-3 preemptions"}
ASSUMPTIONS = [
    "thread slice: an action carried by a send() call that started BEFORE stop() returned is concurrent with stop() and may complete (C04 requires accepted events to be processed); only a send() that starts after stop() returned must deliver nothing",
    "send() on an uninitialized interpreter is not judged (the statement names done, failed and stopped)",
    "TICK advances virtual time by 1 s with the default schedule (timers in deadline order); other orders are C08/C09's subject",
]
ENGINES = ("sync", "async")
OPS = ["start", "E", "FIN", "FAIL", "SPAWN", "KILL", "ARM", "BACK", "stop", "TICK", "WAIT", "MID", "SR", "SRS"]
ALLOWED = {
    ("uninitialized", "running"), ("running", "done"), ("running", "error"), ("running", "stopped"),
    ("done", "stopped"), ("error", "stopped"), ("uninitialized", "done"), ("uninitialized", "error"),
}


def kid_machine():
    # on entry the child arms two delayed sends to its parent: one carrying a send id, one anonymous
    hb1 = {"type": "xstate.sendParent", "params": {"event": "KPING1", "delay": 300, "id": "hb"}}
    hb2 = {"type": "xstate.sendParent", "params": {"event": "KPING2", "delay": 350}}
    return create_machine(
        {"id": "kid", "initial": "run",
         "states": {"run": {"entry": [hb1, hb2], "after": {"500": "fin"}, "on": {"POKE": {"actions": []}}}, "fin": {"type": "final"}}},
        logic=MachineLogic(),
    )


def kid2_machine():
    return create_machine(
        {"id": "kid2", "initial": "run", "states": {"run": {"after": {"500": "fin"}}, "fin": {"type": "final"}}},
        logic=MachineLogic(),
    )


def bad_service(interp, ctx, ev):
    raise ValueError("service failed")


def make_cfg() -> Dict[str, Any]:
    return {
        "id": "m", "initial": "idle", "context": {},
        "states": {
            "idle": {"on": {
                "E": {"actions": ["tr:e"]},
                "FIN": "done", "FAIL": "failing", "ARM": "armed",
                "SPAWN": {"actions": [A.spawn_child("kid", actor_id="k1", system_id="sys1"), "tr:spawn"]},
                "KILL": {"actions": [A.stop_child("k1"), "tr:kill"]},
            }},
            "armed": {
                "entry": ["en:armed", A.raise_("PING", delay=300)],
                "exit": ["ex:armed"],
                "after": {"250": {"target": "idle", "actions": ["tr:after"]}},
                "invoke": {"id": "inv", "src": "kid2", "onDone": {"target": "idle", "actions": ["tr:invdone"]}},
                "on": {"BACK": "idle", "E": {"actions": ["tr:e"]}},
            },
            # the top-level final state itself invokes a failing service: a failure after completion must not move done -> error
            "done": {"type": "final", "entry": ["en:done"], "invoke": {"id": "late", "src": "bad"}},
            "failing": {"entry": ["en:failing"], "invoke": {"id": "b", "src": "bad"}, "on": {"E": {"actions": ["tr:e"]}}},
        },
        "on": {"PING": {"actions": ["tr:ping"]}, "KPING1": {"actions": ["tr:kping"]}, "KPING2": {"actions": ["tr:kping"]}},
    }


class Life:
    """One execution: an interpreter under test driven by operations."""

    def __init__(self, engine: str) -> None:
        self.engine = engine
        self.h = Harness(make_cfg(), with_plugin=True, threads=True, budget=4000,
                         services={"kid": kid_machine(), "kid2": kid2_machine(), "bad": bad_service})
        self.d = self.h.driver(engine)
        self.restored = False
        self.problems: List[Tuple[str, str]] = []

    # -- helpers -------------------------------------------------------------
    @property
    def interp(self):
        return self.d.interp

    def settle(self) -> None:
        if self.engine == "async":
            self.d.settle()
        else:
            self.d.settle()

    def qlen(self) -> int:
        i = self.interp
        return i._event_queue.qsize() if self.engine == "async" else len(i._event_queue)

    def census(self) -> Dict[str, Any]:
        i = self.interp
        out: Dict[str, Any] = {}
        if self.engine == "async":
            loop = self.d.loop
            out["live_tasks"] = sorted(t.get_coro().__qualname__ for t in asyncio.all_tasks(loop) if not t.done())
            out["timers"] = len(loop.live_timers())
            out["tm"] = {k: len([t for t in v if not t.done()]) for k, v in i.task_manager._tasks_by_owner.items() if any(not t.done() for t in v)}
            out["loop_task"] = i._event_loop_task is not None and not i._event_loop_task.done()
        else:
            sched = self.d.sched
            live = []
            for t in sched.live():
                cancelled = t.state == "blocked" and t.wait_event is not None and t.wait_event._flag
                live.append((t.name.split("::")[0].split(":")[0], "cancelled" if cancelled else t.state))
            out["threads"] = sorted(live)
            out["after_events"] = len(i._after_events)
            out["pending_sends"] = len(i._pending_send_cancels)
        out["actors"] = sorted((k, a.status) for k, a in i._actors.items())
        out["system"] = sorted(i._system)
        return out

    def canon(self) -> tuple:
        c = self.census()
        key_census = repr(sorted((k, repr(v)) for k, v in c.items()))
        return (canon_interp(self.interp), key_census, self.restored, self.qlen())

    # -- operations ------------------------------------------------------------
    def apply(self, op: str) -> None:
        i = self.interp
        before = canon_interp(i)
        status0 = i.status
        q0 = self.qlen()
        mark = self.h.rec.mark()
        err: Optional[BaseException] = None
        kids_before = list(i._actors.values())
        spawned_running = any(k.status == "running" and "k1" in k.id for k in kids_before)
        if op == "start":
            err = self.d.start()
        elif op == "stop":
            err = self.d.stop()
        elif op == "TICK":
            self.d.advance(1.0)
        elif op == "MID":
            # 320 virtual ms: BETWEEN the deadlines of timers that were armed together (the child's delayed sends are due
            # after 300 and 350 ms) - one of several tasks of one owner has finished, the others are still pending
            self.d.advance(0.32)
        elif op == "WAIT":
            # 30 virtual ms: no timer of the machine is due, but polling helper threads (actor runners) get past a poll
            self.d.advance(0.03)
        elif op in ("SR", "SRS"):
            try:
                snap = i.get_snapshot()
            except Exception as exc:  # noqa: BLE001
                self.problems.append(("snapshot-raised", repr(exc)))
                return
            # retire the old interpreter silently
            self.d.stop()
            self.settle()
            cls = Interpreter if self.engine == "async" else SyncInterpreter
            try:
                if self.engine == "async":
                    with self.d.loop.active():
                        new = cls.from_snapshot(snap, self.h.machine())
                else:
                    new = cls.from_snapshot(snap, self.h.machine())
            except Exception as exc:  # noqa: BLE001
                self.problems.append(("restore-raised", repr(exc)))
                return
            self.h._attach(new)
            self.d.interp = new
            self.restored = True
            del self.h.rec.log[mark:]
            if op == "SRS":
                err = self.d.start()
                if err is not None and new.status != "stopped":
                    self.problems.append(("start-of-restored-raised", repr(err)))
            self.settle()
            return
        else:
            err = self.d.send(op)
        self.settle()
        i = self.interp
        seg = self.h.rec.since(mark)
        status1 = i.status
        acted = [e for e in seg if e[0] in ("A", "EV", "TR")]
        # ---- a stopped child's delayed sends (with or without a send id) deliver nothing
        if not spawned_running and op not in ("SPAWN",) and any(e[0] == "A" and e[1] == "tr:kping" for e in seg):
            self.problems.append(("stopped-child-delivered-delayed-send", f"{op}: parent handled KPING although no spawned child is running"))
        # ---- specification automaton
        if status0 != status1 and (status0, status1) not in ALLOWED:
            self.problems.append(("illegal-status-edge", f"{status0} -> {status1} on {op}"))
        # the edges taken INSIDE the step, as the plugin saw them: on_done then on_error of this interpreter (done -> error), or the reverse
        mine = [e[0] for e in self.h.rec.log if e[0] in ("DONE", "ERR") and e[1] == i.id]
        if "DONE" in mine and "ERR" in mine and not self.restored:
            self.problems.append(("illegal-status-edge", f"{' -> '.join('done' if x == 'DONE' else 'error' for x in mine)} inside {op} (on_done and on_error both reported)"))
        if status1 in ("done",) and i.error is not None:
            self.problems.append(("completed-interpreter-carries-error", f"{i.error!r}"))
        if op == "start":
            if status0 == "stopped":
                if not isinstance(err, XStateMachineError):
                    self.problems.append(("start-revived-or-ignored-stopped", f"start() on a stopped interpreter returned {err!r}, status {status1}"))
                if status1 != "stopped":
                    self.problems.append(("start-revived-stopped", f"status {status1}"))
            elif err is not None:
                self.problems.append(("start-raised", repr(err)))
            if status0 == "running" and not (self.restored and self.engine == "async"):
                if any(e[0] == "A" for e in seg):
                    self.problems.append(("start-while-running-reran-actions", f"{[e[1] for e in seg if e[0]=='A']}"))
                if canon_interp(i) != before:
                    self.problems.append(("start-while-running-changed-state", f"{before} -> {canon_interp(i)}"))
        elif op == "stop":
            if err is not None:
                self.problems.append(("stop-raised", f"{err!r} in status {status0}"))
            if status0 != "uninitialized" and status1 != "stopped":
                self.problems.append(("stop-did-not-stop", f"{status0} -> {status1}"))
            if status1 == "stopped":
                self.check_released(kids_before, op)
        elif op in ("TICK", "WAIT", "MID"):
            if status0 in ("stopped", "done", "error") and acted and status0 == "stopped":
                self.problems.append(("delivery-after-stop", f"{[e[:3] for e in acted][:4]}"))
            if status0 == "stopped":
                self.check_released(kids_before, op)
        else:
            if err is not None:
                self.problems.append(("send-raised", f"{op}: {err!r}"))
            if status0 in ("done", "error", "stopped"):
                if canon_interp(i) != before:
                    self.problems.append(("send-changed-terminal-interpreter", f"{op} in {status0}: {before} -> {canon_interp(i)}"))
                if self.qlen() != q0:
                    self.problems.append(("send-queued-on-terminal-interpreter", f"{op} in {status0}: queue {q0} -> {self.qlen()}"))
                if acted:
                    self.problems.append(("send-ran-code-on-terminal-interpreter", f"{op} in {status0}: {[e[:3] for e in acted][:4]}"))
            elif status0 == "running" and op == "E" and not (self.restored and self.engine == "async" and not self.census().get("loop_task")):
                if not any(e[0] == "A" and e[1] == "tr:e" for e in seg) and "m.idle" in before[0] + () or False:
                    pass
        # a running interpreter with a live loop must process E
        if op == "E" and status0 == "running" and status1 == "running":
            live = True
            if self.engine == "async":
                live = bool(self.census().get("loop_task"))
            conf = before[0]
            if live and ("m.idle" in conf or "m.armed" in conf or "m.failing" in conf):
                if not any(e[0] == "A" and e[1] == "tr:e" for e in seg):
                    self.problems.append(("running-interpreter-ignored-event", f"E in {conf}; log {[e[:2] for e in seg]}"))

    def check_released(self, kids_before, op) -> None:
        if self.engine == "sync":
            # grace: cancelled waiters and pollers may still be parked; they must end by
            # themselves within a poll interval and deliver nothing
            m0 = self.h.rec.mark()
            self.d.advance(0.05)
            noisy = [e for e in self.h.rec.since(m0) if e[0] in ("A", "EV", "TR")]
            if noisy:
                self.problems.append(("delivery-after-stop", f"{[e[:3] for e in noisy][:4]}"))
        c = self.census()
        if self.engine == "async":
            if c["tm"]:
                self.problems.append(("tasks-registered-after-stop", f"{c['tm']}"))
            if c["live_tasks"]:
                self.problems.append(("asyncio-tasks-alive-after-stop", f"{c['live_tasks']}"))
            if c["timers"]:
                self.problems.append(("timers-alive-after-stop", f"{c['timers']} live timer handle(s)"))
        else:
            if c["threads"]:
                self.problems.append(("threads-alive-after-stop", f"{c['threads']}"))
            if c["after_events"] or c["pending_sends"]:
                self.problems.append(("timer-registrations-after-stop", f"{c}"))
        if c["actors"]:
            self.problems.append(("actors-registered-after-stop", f"{c['actors']}"))
        if c["system"]:
            self.problems.append(("system-registry-not-emptied-after-stop", f"{c['system']}"))
        for k in kids_before:
            if k.status not in ("stopped", "uninitialized"):
                self.problems.append(("child-not-stopped-after-stop", f"{k.id}: {k.status}"))

    def close(self) -> None:
        self.d.close()


def run_seq(engine: str, seq: List[str]) -> Life:
    life = Life(engine)
    try:
        for op in seq:
            life.apply(op)
    except BaseException:
        life.close()
        raise
    return life


def _expand(engine: str, seqs: List[List[str]], seen: set, depth: int, res: Dict[str, Any]) -> List[List[str]]:
    """Evaluates the given operation sequences; returns those that reached a new
    canonical state without a violation (to be extended further)."""
    fresh: List[List[str]] = []
    for seq in seqs:
        try:
            life = run_seq(engine, seq)
        except Budget:
            continue
        res["executions"] += 1
        res["transitions"] += 1
        try:
            key = life.canon()
            probs = list(life.problems)
        finally:
            life.close()
        for clause, detail in probs:
            res["violations"].append(dict(
                signature=f"C14|{clause}|{engine}", clause=clause,
                what=f"{engine}: {clause}: {detail}; operations {seq}", size=len(seq),
                replay=dict(engine=engine, seq=seq)))
        if probs or key in seen:
            continue
        seen.add(key)
        res["distinct"].append(hash((engine, key)))
        if len(seq) < depth:
            fresh.append(seq)
    return fresh


PRE_DEPTH = 3


def units(tier: str) -> List[Any]:
    """The top PRE_DEPTH levels are explored here, in the parent, so that work
    units start from DISTINCT canonical states (no duplicated subtrees)."""
    depth = 5 if tier == "quick" else 7
    core.install_logging()
    us: List[Any] = []
    for kind in ("done", "stop", "error"):
        us.append(("startterm", kind))
    for kind in ("final", "always-final", "fail"):
        us.append(("stopmid", kind))
    us.append(("concstart", 2))
    us.append(("concstart", 3))
    from . import c14_preempt as PP
    from ..preempt import split

    for variant, (bq, bt) in PREEMPT.items():
        b = bq if tier == "quick" else bt
        for root in split(PP, variant, b):
            us.append(("preempt", variant, (b, root)))
    for engine in ENGINES:
        res = dict(states=0, transitions=0, executions=0, distinct=[], violations=[], samples=[], caps=[])
        seen: set = set()
        level = [[]]
        level = _expand(engine, level, seen, depth, res)
        for _ in range(PRE_DEPTH):
            nxt = [seq + [op] for seq in level for op in OPS]
            level = _expand(engine, nxt, seen, depth, res)
        res["states"] = len(seen)
        res["samples"].append(dict(engine=engine, phase="top levels", depth=PRE_DEPTH, states=len(seen)))
        us.append(("pre", engine, res))
        for seq in level:
            us.append(("sub", engine, seq, depth))
    return us


def run_start_terminal(kind: str) -> Dict[str, Any]:
    """The machine reaches a terminal status INSIDE start() while an event raised by an entry action is still queued:
    kind 'done' (initial state final), 'stop' (an entry action calls stop()), 'error' (initial state invokes a failing service
    without onError).  Nothing may run for the queued event, on either engine."""
    res = dict(states=0, transitions=0, executions=0, distinct=[], violations=[], samples=[], caps=[])
    for engine in ENGINES:
        is_async = engine == "async"
        if is_async and kind == "error":
            continue  # async services run as tasks: their failure is not inside start()
        if is_async:
            async def stopper(interp, ctx, ev, ad):
                await interp.stop()
        else:
            def stopper(interp, ctx, ev, ad):
                interp.stop()
        first: Dict[str, Any] = {"type": "final"} if kind == "done" else ({"entry": ["stopper"]} if kind == "stop" else {"invoke": {"id": "b", "src": "bad"}})
        cfg = {"id": "m", "initial": "first", "entry": [A.raise_("PING"), "mk:root"],
               "states": {"first": first, "other": {"entry": ["mk:other"]}},
               "on": {"PING": {"target": ".other", "actions": ["tr:ping"]}}}
        h = Harness(cfg, with_plugin=True, threads=True, budget=2000, services={"bad": bad_service}, extra_actions={"stopper": stopper})
        d = h.driver(engine)
        try:
            d.start()
            d.settle()
            log = list(h.rec.log)
            ran = [e[1] for e in log if e[0] == "A" and e[1] in ("tr:ping", "mk:other")]
            status = d.interp.status
            conf = sorted(s.id for s in d.interp._active_state_nodes)
            res["executions"] += 1
            res["distinct"].append(hash(("startterm", kind, engine)))
            want_status = {"done": "done", "stop": "stopped", "error": "error"}[kind]
            bad = []
            if status != want_status:
                bad.append(("start-terminal-status", f"status {status}, expected {want_status}"))
            if ran:
                bad.append(("queued-event-processed-on-terminal-interpreter", f"{ran} ran although the interpreter was already {status} when start() drained its queue; configuration {conf}"))
            for clause, detail in bad:
                res["violations"].append(dict(signature=f"C14|{clause}|{engine}|start-{kind}", clause=clause,
                                              what=f"{engine}: {clause}: {detail}; machine terminal inside start() ({kind}) with a raised event queued", size=1,
                                              replay=dict(engine="startterm", kind=kind)))
        finally:
            d.close()
    res["samples"].append(dict(scenario="terminal inside start()", kind=kind))
    return res


def run_stop_mid(kind: str) -> Dict[str, Any]:
    """stop() is called by a TRANSITION action of a running machine, and the same macrostep then reaches a terminal
    condition: the transition targets a top-level final state ('final'), reaches it through an eventless follow-up
    ('always-final'), or enters a state invoking a failing service without onError ('fail', sync engine: the failure is
    inside the macrostep).  stopped is terminal: the status stays 'stopped', no on_done / on_error hook follows the stop
    hook, a second stop() does nothing, start() does not revive the interpreter."""
    res = dict(states=0, transitions=0, executions=0, distinct=[], violations=[], samples=[], caps=[])
    for engine in ENGINES:
        is_async = engine == "async"
        if is_async and kind == "fail":
            continue
        if is_async:
            async def stopper(interp, ctx, ev, ad):
                await interp.stop()
        else:
            def stopper(interp, ctx, ev, ad):
                interp.stop()
        states: Dict[str, Any] = {"idle": {"on": {"GO": {"target": "next", "actions": ["stopper", "tr:go"]}}},
                                  "fin": {"type": "final"}}
        if kind == "final":
            states["idle"]["on"]["GO"]["target"] = "fin"
        elif kind == "always-final":
            states["next"] = {"always": {"target": "fin"}}
        else:
            states["next"] = {"invoke": {"id": "b", "src": "bad"}}
        cfg = {"id": "m", "initial": "idle", "states": states}
        h = Harness(cfg, with_plugin=True, threads=True, budget=2000, services={"bad": bad_service}, extra_actions={"stopper": stopper})
        d = h.driver(engine)
        try:
            d.start()
            d.settle()
            d.send("GO")
            d.settle()
            status1 = d.interp.status
            mark = h.rec.mark()
            d.stop()
            d.settle()
            again = [e for e in h.rec.since(mark) if e[0] in ("STOP", "DONE", "ERR")]
            revived = None
            try:
                d.start()
                d.settle()
                revived = d.interp.status
            except Exception:  # noqa: BLE001  (refusing is fine)
                revived = d.interp.status
            log = list(h.rec.log)
            tags = [e[0] for e in log if e[0] in ("STOP", "DONE", "ERR")]
            res["executions"] += 1
            res["distinct"].append(hash(("stopmid", kind, engine)))
            bad = []
            if status1 != "stopped":
                bad.append(("status-left-stopped", f"status {status1} after a macrostep in which stop() ran"))
            if "STOP" in tags and any(t in ("DONE", "ERR") for t in tags[tags.index("STOP") + 1:]):
                bad.append(("terminal-hook-after-stop", f"hooks {tags}"))
            if again:
                bad.append(("second-stop-not-idempotent", f"a second stop() reported {again}"))
            if revived == "running":
                bad.append(("stopped-interpreter-restarted", "start() after stop() set the status to running"))
            for clause, detail in bad:
                res["violations"].append(dict(signature=f"C14|{clause}|{engine}|stop-mid-{kind}", clause=clause,
                                              what=f"{engine}: {clause}: {detail}; stop() called by a transition action, macrostep then reaches {kind}", size=1,
                                              replay=dict(engine="stopmid", kind=kind)))
        finally:
            d.close()
    res["samples"].append(dict(scenario="stop() inside a macrostep that then terminates", kind=kind))
    return res


def run_concurrent_start(k: int) -> Dict[str, Any]:
    """async engine: k start() calls issued in the same loop iteration while the initial entry action is suspended; then
    one event.  Judged: one run loop, nothing received before the initial entry finished, the event processed once."""
    import asyncio as _asyncio

    res = dict(states=0, transitions=0, executions=1, distinct=[hash(("concstart", k))], violations=[], samples=[], caps=[])

    async def slow_entry(interp, ctx, ev, ad):
        h.rec.log.append(("A", "entry-start", "", None, None, None))
        await _asyncio.sleep(0.01)
        h.rec.log.append(("A", "entry-end", "", None, None, None))

    cfg = {"id": "m", "initial": "a", "entry": [A.raise_("X")],
           "states": {"a": {"entry": ["slow_entry"], "on": {"E": {"actions": ["tr:e"]}, "X": {"actions": ["tr:x"]}}}}}
    h = Harness(cfg, with_plugin=True, extra_actions={"slow_entry": slow_entry}, budget=2000)
    d = h.driver("async")
    try:
        async def many():
            await _asyncio.gather(*[d.interp.start() for _ in range(k)])

        err = d._call(many())
        d.advance(0.05)
        d.settle()
        err2 = d.send("E")
        d.settle()
        log = list(h.rec.log)
        names = [e[1] for e in log if e[0] == "A"]
        evs = [e[1] for e in log if e[0] == "EV"]
        loops = [t for t in _asyncio.all_tasks(d.loop) if not t.done() and "_run_event_loop" in getattr(t.get_coro(), "__qualname__", "")]
        bad = []
        if err is not None or err2 is not None:
            bad.append(("start-raised", f"{err!r} {err2!r}"))
        if len(loops) != 1:
            bad.append(("several-run-loops", f"{len(loops)} run-loop tasks alive after {k} concurrent start() calls"))
        if names.count("entry-start") != 1:
            bad.append(("start-while-running-reran-actions", f"{names}"))
        idx_end = next((i for i, e in enumerate(log) if e[0] == "A" and e[1] == "entry-end"), None)
        idx_ev = next((i for i, e in enumerate(log) if e[0] == "EV"), None)
        if idx_end is None or (idx_ev is not None and idx_ev < idx_end):
            bad.append(("event-processed-during-initial-entry", f"{[(e[0], e[1]) for e in log if e[0] in ('A', 'EV')]}"))
        if sorted(evs) != ["E", "X"]:
            bad.append(("event-lost-or-duplicated", f"received {evs}"))
        for clause, detail in bad:
            res["violations"].append(dict(signature=f"C14|{clause}|async|concurrent-start", clause=clause,
                                          what=f"async: {clause}: {detail}; {k} concurrent start() calls", size=k,
                                          replay=dict(engine="concstart", k=k)))
        res["samples"].append(dict(engine="async", scenario="concurrent start", calls=k, log=[(e[0], e[1]) for e in log if e[0] in ("A", "EV")]))
    finally:
        d.close()
    return res


PREEMPT = {"stop-vs-timer": (2, 3), "stop-vs-caller": (2, 3), "stop-vs-caller+timer": (1, 2), "stop-stop-vs-timer": (1, 2)}


def run_unit(unit):
    if unit[0] == "pre":
        return unit[2]
    if unit[0] == "concstart":
        return run_concurrent_start(unit[1])
    if unit[0] == "startterm":
        return run_start_terminal(unit[1])
    if unit[0] == "stopmid":
        return run_stop_mid(unit[1])
    if unit[0] == "preempt":
        from . import c14_preempt as P
        from ..preempt import unit_result

        bound, root = unit[2]
        return unit_result("C14", P, unit[1], bound,
                           lambda v: f"threads {sorted(P.VARIANTS[v]['producers'])}{' + after-timer' if P.VARIANTS[v]['timer'] else ''}", root=root)
    _, engine, root, depth = unit
    res = dict(states=0, transitions=0, executions=0, distinct=[], violations=[], samples=[], caps=[])
    seen: set = set()
    level = [root + [op] for op in OPS]
    while level:
        fresh = _expand(engine, level, seen, depth, res)
        level = [seq + [op] for seq in fresh for op in OPS]
    res["states"] = len(seen)
    res["samples"].append(dict(engine=engine, root=root, depth=depth, states=len(seen), sequences=res["executions"]))
    res["caps"].append(f"depth {depth}")
    return res


def replay(payload):
    if payload.get("engine") == "startterm":
        r = run_start_terminal(payload["kind"])
        for v in r["violations"]:
            print("  ", v["what"][:300])
        return r["violations"]
    if payload.get("engine") == "stopmid":
        r = run_stop_mid(payload["kind"])
        for v in r["violations"]:
            print("  ", v["what"][:300])
        return r["violations"]
    if payload.get("engine") == "concstart":
        r = run_concurrent_start(payload["k"])
        for v in r["violations"]:
            print("  ", v["what"][:300])
        return r["violations"]
    if payload.get("engine") == "preempt":
        from . import c14_preempt as P
        from ..e2 import Choices

        out = P.run(payload["variant"], Choices(payload["schedule"]), payload["bound"])
        print("  log order:", out["order"])
        for c, d in out["bad"]:
            print("  ", c, d)
        return [dict(signature=f"C14|{c}|sync-threads", what=d) for c, d in out["bad"]]
    life = run_seq(payload["engine"], payload["seq"])
    try:
        out = [dict(signature=f"C14|{c}", what=d) for c, d in life.problems]
        for c, d in life.problems:
            print("  ", c, d)
        print("  final:", life.interp.status, life.census())
    finally:
        life.close()
    return out
