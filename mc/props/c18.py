"""C18 — config front-end: spellings are equivalent, malformed input fails loudly.

(a) every applicable rewrite site of every spelling rule on every corpus machine
    (and target respellings on TREE universal machines): applied singly, in pairs
    (thorough) and all at once; the rewritten machine must have the same deep
    fingerprint (targets compared as resolved ids) and the same traces.
(b) every subtree position of every corpus config replaced by every value of a
    wrong JSON type: create_machine -> start -> events -> can() may only raise
    XStateMachineError subclasses; if nothing is raised the machine must behave
    like the uncorrupted one.
"""
from __future__ import annotations

import copy
import itertools
import json
import re
from typing import Any, Dict, List, Optional, Tuple

from xstate_statemachine import MachineLogic, SyncInterpreter, create_machine
from xstate_statemachine.exceptions import XStateMachineError

from .. import cfgtools as C
from .. import core
from .. import families as F

LEVEL = "model_checking"
RULE = (
    "(a) rewrite rules {string <-> object <-> one-element-list transition, always <-> on[''] (also split over both keys on one state), cond <-> guard, single action "
    "<-> list <-> object, numeric <-> string delay key, drop 'initial' with a single child, target respelled as every "
    "spelling an independent reference resolver maps to the same state (sibling key, dotted path, leading-dot relative, "
    "#machineId.path, #customId)} applied at every applicable site of every corpus machine, of TREE universal machines and of COLLIDE machines (the keys x, y repeated at every level, so a spelling looked up in the wrong scope finds the wrong state instead of failing), "
    "singly / in pairs / all at once; oracle: deep fingerprint + trace equivalence (all-true and all-false guards); "
    "(b) every JSON position of every corpus config x every wrong-typed value from a 9-value menu (types the schema accepts "
    "at that key are skipped), driven through create_machine, start, every event to depth 2 and can(); plus two-point corruptions of every compound state ('initial' deleted AND states / on / after / invoke wrong-typed); "
    "(c) every pair of distinct states of every TREE universal machine and COLLIDE machine given the same custom id (siblings, different branches, a state and its descendant): must be rejected with an XStateMachineError; "
    "distinct_nontrivial = distinct (machine, rewrite set) + distinct (machine, position, value) + distinct (machine, state pair) cases"
)
BOUNDS = {
    "quick": "10 corpus machines + TREE(N<=2) respellings + 3 key-colliding machines; single rewrites + all-at-once; all single-point corruptions; duplicate-id pairs over TREE(N<=3) + COLLIDE",
    "thorough": "10 corpus machines + TREE(N<=3) respellings + 6 key-colliding machines; single, paired and all-at-once rewrites; all single-point corruptions; duplicate-id pairs over TREE(N<=4) + COLLIDE",
}
ASSUMPTIONS = [
    "spellings are generated from a reference resolver written from the documented resolution rules; only spellings it maps to the same state are used",
    "a wrong-typed value that is accepted must leave behaviour (traces to depth 2, both guard valuations) unchanged",
]
WRONG = [None, True, 0, 1.5, "s", [], [1], {}, {"a": 1}]


# ------------------------------------------------------------------ rewrite sites
def walk_states(cfg, path=()):
    yield path, cfg
    for k, v in (cfg.get("states") or {}).items():
        if isinstance(v, dict):
            yield from walk_states(v, path + ("states", k))


def get_at(cfg, path):
    cur = cfg
    for p in path:
        cur = cur[p]
    return cur


def set_at(cfg, path, val):
    cur = cfg
    for p in path[:-1]:
        cur = cur[p]
    cur[path[-1]] = val


def transition_slots(cfg) -> List[tuple]:
    """Paths of every transition value (the thing that may be str/dict/list)."""
    out = []
    for spath, st in walk_states(cfg):
        for ev in (st.get("on") or {}):
            out.append(spath + ("on", ev))
        if "always" in st:
            out.append(spath + ("always",))
        if "onDone" in st:
            out.append(spath + ("onDone",))
        for k in (st.get("after") or {}):
            out.append(spath + ("after", k))
        inv = st.get("invoke")
        if isinstance(inv, dict):
            for k in ("onDone", "onError"):
                if k in inv:
                    out.append(spath + ("invoke", k))
    return out


def rewrites(cfg) -> List[Tuple[str, Any]]:
    """List of (description, function(cfg_copy) -> None) single rewrites."""
    out: List[Tuple[str, Any]] = []
    for slot in transition_slots(cfg):
        v = get_at(cfg, slot)
        if isinstance(v, str):
            out.append((f"{slot}: string -> object", lambda c, s=slot, v=v: set_at(c, s, {"target": v})))
            out.append((f"{slot}: string -> [string]", lambda c, s=slot, v=v: set_at(c, s, [v])))
            out.append((f"{slot}: string -> [object]", lambda c, s=slot, v=v: set_at(c, s, [{"target": v}])))
        elif isinstance(v, dict):
            out.append((f"{slot}: object -> [object]", lambda c, s=slot, v=v: set_at(c, s, [copy.deepcopy(v)])))
            if set(v) == {"target"}:
                out.append((f"{slot}: object -> string", lambda c, s=slot, v=v: set_at(c, s, v["target"])))
        elif isinstance(v, list) and len(v) == 1 and isinstance(v[0], dict):
            out.append((f"{slot}: [object] -> object", lambda c, s=slot, v=v: set_at(c, s, copy.deepcopy(v[0]))))
        # transition-level rewrites
        items = v if isinstance(v, list) else [v]
        for i, t in enumerate(items):
            if not isinstance(t, dict):
                continue
            tslot = slot + ((i,) if isinstance(v, list) else ())
            for a, b in (("guard", "cond"), ("cond", "guard")):
                if a in t:
                    def f(c, ts=tslot, a=a, b=b):
                        d = get_at(c, ts)
                        d[b] = d.pop(a)
                    out.append((f"{tslot}: {a} -> {b}", f))
            if "actions" in t:
                out.extend(action_rewrites(tslot + ("actions",), t["actions"]))
    for spath, st in walk_states(cfg):
        for key in ("entry", "exit"):
            if key in st:
                out.extend(action_rewrites(spath + (key,), st[key]))
        if "always" in st and "" not in (st.get("on") or {}):
            def f(c, sp=spath):
                d = get_at(c, sp)
                d.setdefault("on", {})[""] = d.pop("always")
            out.append((f"{spath}: always -> on['']", f))
        if isinstance(st.get("always"), list) and len(st["always"]) >= 2 and "" not in (st.get("on") or {}):
            # both spellings on ONE state: the first candidate under on[''], the rest under always - the transient bucket is
            # the on[''] candidates followed by the always candidates
            def f3(c, spath=spath):
                d = get_at(c, spath)
                alw = d.pop("always")
                d.setdefault("on", {})[""] = alw[0]
                d["always"] = alw[1:]
            out.append((f"{spath}: always -> on[''] (first candidate) + always (rest)", f3))
        if "" in (st.get("on") or {}) and "always" not in st:
            def f2(c, sp=spath):
                d = get_at(c, sp)
                d["always"] = d["on"].pop("")
            out.append((f"{spath}: on[''] -> always", f2))
        for k in list((st.get("after") or {})):
            try:
                ik = int(k)
            except (TypeError, ValueError):
                continue
            if isinstance(k, str):
                def f3(c, sp=spath, k=k, ik=ik):
                    d = get_at(c, sp)["after"]
                    d[ik] = d.pop(k)
                out.append((f"{spath}: after key '{k}' -> {ik}", f3))

                # a numeric delay may also arrive as a float (JSON numbers of some producers, computed values)
                def f4(c, sp=spath, k=k, ik=ik):
                    d = get_at(c, sp)["after"]
                    d[float(ik)] = d.pop(k)
                out.append((f"{spath}: after key '{k}' -> {float(ik)}", f4))
        kids = [k for k, v in (st.get("states") or {}).items() if not (isinstance(v, dict) and v.get("type") == "history")]
        if st.get("initial") and len(kids) == 1 and st.get("type") != "parallel":
            out.append((f"{spath}: drop 'initial' (single child)", lambda c, sp=spath: get_at(c, sp).pop("initial")))
    return out


def action_rewrites(slot, v) -> List[Tuple[str, Any]]:
    out = []
    if isinstance(v, str):
        out.append((f"{slot}: action string -> [string]", lambda c, s=slot, v=v: set_at(c, s, [v])))
        out.append((f"{slot}: action string -> object", lambda c, s=slot, v=v: set_at(c, s, {"type": v})))
        out.append((f"{slot}: action string -> [object]", lambda c, s=slot, v=v: set_at(c, s, [{"type": v}])))
    elif isinstance(v, list):
        if len(v) == 1:
            out.append((f"{slot}: [action] -> action", lambda c, s=slot, v=v: set_at(c, s, copy.deepcopy(v[0]))))
        for i, a in enumerate(v):
            if isinstance(a, str):
                out.append((f"{slot}[{i}]: string -> object", lambda c, s=slot, i=i, a=a: set_at(c, s + (i,), {"type": a})))
            elif isinstance(a, dict) and set(a) == {"type"}:
                out.append((f"{slot}[{i}]: object -> string", lambda c, s=slot, i=i, a=a: set_at(c, s + (i,), a["type"])))
    elif isinstance(v, dict):
        out.append((f"{slot}: action object -> [object]", lambda c, s=slot, v=v: set_at(c, s, [copy.deepcopy(v)])))
    # the branches of a built-in `choose` action are action slots (and guard / cond slots) of their own
    items = v if isinstance(v, list) else [v]
    for i, a in enumerate(items):
        if not (isinstance(a, dict) and a.get("type") in ("xstate.choose", "choose") and isinstance(a.get("params"), dict)):
            continue
        base = slot + ((i,) if isinstance(v, list) else ()) + ("params", "conditions")
        for j, br in enumerate(a["params"].get("conditions") or []):
            if not isinstance(br, dict):
                continue
            for x, y in (("guard", "cond"), ("cond", "guard")):
                if x in br:
                    def f(c, b=base + (j,), x=x, y=y):
                        d = get_at(c, b)
                        d[y] = d.pop(x)
                    out.append((f"{base + (j,)}: {x} -> {y}", f))
            if "actions" in br:
                out.extend(action_rewrites(base + (j, "actions"), br["actions"]))
    return out


# ------------------------------------------------------------------ reference resolver + target respellings
class RNode:
    def __init__(self, key, parent, cfg):
        self.key, self.parent, self.cfg = key, parent, cfg
        self.id = key if parent is None else f"{parent.id}.{key}"
        self.kids = {k: RNode(k, self, v) for k, v in (cfg.get("states") or {}).items() if isinstance(v, dict)}
        self.custom = cfg.get("id") if parent is not None else None


def ref_tree(cfg):
    root = RNode(cfg["id"], None, cfg)
    allnodes = []

    def rec(n):
        allnodes.append(n)
        for c in n.kids.values():
            rec(c)

    rec(root)
    return root, allnodes


def ref_descend(n, segs):
    for s in segs:
        if s not in n.kids:
            return None
        n = n.kids[s]
    return n


def ref_resolve_one(target: str, ref: RNode, root: RNode, allnodes) -> Optional[RNode]:
    """The documented rules of resolve_target_state."""
    if not target:
        return None
    if target.startswith("#"):
        segs = target[1:].split(".")
        if "" in segs:
            return None
        if segs[0] == root.key:
            r = ref_descend(root, segs[1:])
            if r is not None:
                return r
        for n in allnodes:
            if n.custom == segs[0]:
                return ref_descend(n, segs[1:])
        return None
    if target == ".":
        return ref.parent or ref
    if target.startswith("."):
        segs = target[1:].split(".")
        if "" in segs:
            return None
        return ref_descend(ref.parent or ref, segs)
    segs = target.split(".")
    if "" in segs:
        return None
    cur = ref
    while cur is not None:
        r = ref_descend(cur, segs)
        if r is not None:
            return r
        if len(segs) == 1 and segs[0] == cur.key:
            return cur
        cur = cur.parent
    return None


def ref_resolve(target: str, source: RNode, root: RNode, allnodes) -> Optional[RNode]:
    """Interpreter order: relative to the source, then its parent, then the root."""
    for ref in (source, source.parent, root):
        if ref is None:
            continue
        r = ref_resolve_one(target, ref, root, allnodes)
        if r is not None:
            return r
    return None


def spellings(src: RNode, tgt: RNode, root: RNode, allnodes) -> List[str]:
    cands = set()
    cands.add("#" + tgt.id)
    if tgt.custom:
        cands.add("#" + tgt.custom)
    cands.add(tgt.key)
    # dotted paths from every ancestor
    path = []
    cur = tgt
    while cur.parent is not None:
        path.insert(0, cur.key)
        cands.add(".".join(path))
        cands.add("." + ".".join(path))
        cur = cur.parent
    out = []
    for c in sorted(cands):
        if ref_resolve(c, src, root, allnodes) is tgt:
            out.append(c)
    return out


def target_rewrites(cfg) -> List[Tuple[str, Any]]:
    root, allnodes = ref_tree(cfg)
    byid = {n.id: n for n in allnodes}
    out = []
    for spath, st in walk_states(cfg):
        sid = ".".join([cfg["id"]] + [p for p in spath if p != "states"])
        src = byid[sid]
        for slot in transition_slots({"on": st.get("on") or {}, **{k: st[k] for k in ("always", "onDone", "after", "invoke") if k in st}}):
            v = get_at(st, slot)
            items = v if isinstance(v, list) else [v]
            for i, t in enumerate(items):
                tstr = t if isinstance(t, str) else (t.get("target") if isinstance(t, dict) else None)
                if not isinstance(tstr, str):
                    continue
                tgt = ref_resolve(tstr, src, root, allnodes)
                if tgt is None or tgt.cfg.get("type") == "history" and False:
                    continue
                for sp in spellings(src, tgt, root, allnodes):
                    if sp == tstr:
                        continue

                    def f(c, full=spath + slot, i=i, islist=isinstance(v, list), sp=sp):
                        val = get_at(c, full)
                        if islist:
                            if isinstance(val[i], str):
                                val[i] = sp
                            else:
                                val[i]["target"] = sp
                        elif isinstance(val, str):
                            set_at(c, full, sp)
                        else:
                            val["target"] = sp

                    out.append((f"{spath + slot}[{i}]: target '{tstr}' -> '{sp}'", f))
    return out


# ------------------------------------------------------------------ (a) equivalence
def site_of(desc: str) -> tuple:
    """The JSON path a rewrite touches (parsed back from its description)."""
    import ast

    head = desc.split(": ", 1)[0]
    m = re.match(r"^(\(.*?\))(\[(\d+)\])?$", head)
    if not m:
        return (head,)
    site = tuple(ast.literal_eval(m.group(1)))
    if m.group(3) is not None:
        site = site + (int(m.group(3)),)
    return site


def overlapping(a: tuple, b: tuple) -> bool:
    n = min(len(a), len(b))
    if a[:n] == b[:n]:
        return True
    # 'always' <-> on[''] moves a whole subtree
    def norm(t):
        t = list(t)
        for i in range(len(t) - 1):
            if t[i] == "on" and t[i + 1] == "":
                t[i:i + 2] = ["always"]
                break
        return tuple(t)

    a2, b2 = norm(a), norm(b)
    n = min(len(a2), len(b2))
    return a2[:n] == b2[:n]


def check_equiv(name: str, cfg, rw_list: List[Tuple[str, Any]], res, label: str):
    try:
        log: List[tuple] = []
        base = create_machine(copy.deepcopy(cfg), logic=C.corpus_logic(cfg, log))
        fp0 = C.fingerprint(base)
    except Exception as exc:  # noqa: BLE001
        raise AssertionError(f"corpus machine {name} does not build: {exc!r}")
    c2 = copy.deepcopy(cfg)
    for desc, f in rw_list:
        f(c2)
    res["evaluations"] += 1
    res["executions"] += 1
    res["distinct_count"] += 1
    descs = [d for d, _ in rw_list]

    def flag(clause, detail):
        kinds = sorted({d.split(": ", 1)[1].split(" '")[0] if "target '" in d else d.split(": ", 1)[1] for d in descs})
        res["violations"].append(dict(
            signature=f"C18|{clause}|{kinds[0] if len(kinds) == 1 else 'combination'}", clause=clause,
            what=f"{clause}: {detail}; machine {name}, rewrites {descs}", size=len(descs),
            replay=dict(kind="equiv", machine=name, rewrites=descs)))

    try:
        log2: List[tuple] = []
        m2 = create_machine(copy.deepcopy(c2), logic=C.corpus_logic(c2, log2))
    except XStateMachineError as exc:
        flag("equivalent-spelling-rejected", repr(exc))
        return
    except Exception as exc:  # noqa: BLE001
        flag("equivalent-spelling-raw-error", repr(exc))
        return
    fp1 = C.fingerprint(m2)
    if fp0 != fp1:
        flag("fingerprint-differs", _first_diff(fp0, fp1))
    try:
        diff = C.equivalent(cfg, c2, depth=3)
    except Exception as exc:  # noqa: BLE001
        flag("equivalent-spelling-fails-at-run-time", repr(exc))
        return
    if diff:
        flag("behaviour-differs", diff[:300])


def _first_diff(a, b, path="") -> str:
    if type(a) != type(b):
        return f"{path}: {a!r} vs {b!r}"
    if isinstance(a, tuple):
        if len(a) != len(b):
            return f"{path}: length {len(a)} vs {len(b)}: {a!r:.120} vs {b!r:.120}"
        for i, (x, y) in enumerate(zip(a, b)):
            if x != y:
                return _first_diff(x, y, f"{path}/{i}")
    return f"{path}: {a!r:.150} vs {b!r:.150}"


# ------------------------------------------------------------------ (b) corruptions
ACCEPTS = {
    # key -> set of python types the documented schema accepts there
    "id": (str,), "initial": (str, type(None)), "type": (str, type(None)), "history": (str, type(None)), "description": (str, type(None)),
    "states": (dict,), "on": (dict,), "after": (dict,), "context": (dict, str), "meta": (dict, type(None)), "tags": (str, list),
    "entry": (str, dict, list, type(None)), "exit": (str, dict, list, type(None)), "actions": (str, dict, list, type(None)),
    # JSON null for an optional key means "absent"
    "invoke": (dict, list, type(None)), "always": (str, dict, list, type(None)), "onDone": (str, dict, list, type(None)),
    "onError": (str, dict, list, type(None)),
    "target": (str, type(None)), "guard": (str, dict, type(None)), "cond": (str, dict, type(None)), "reenter": (bool, type(None)),
    "src": (str,), "input": (dict, list, str, int, float, bool, type(None)), "output": (dict, list, str, int, float, bool, type(None)),
    "params": (dict, list, str, int, float, bool, type(None)), "maxIterations": (int,), "children": (list,),
}


def positions(obj, path=(), parent_key=None):
    """(path, key-context) of every JSON position below the root."""
    if isinstance(obj, dict):
        for k, v in obj.items():
            yield path + (k,), k, parent_key, v
            yield from positions(v, path + (k,), k)
    elif isinstance(obj, list):
        for i, v in enumerate(obj):
            yield path + (i,), parent_key, parent_key, v
            yield from positions(v, path + (i,), parent_key)


def accepted_types(path, key, parent_key, cur) -> tuple:
    # values of on / after maps and list items of transitions: transition values
    if len(path) >= 2 and path[-2] in ("on", "after"):
        return (str, dict, list, type(None))
    if len(path) >= 2 and path[-2] == "states":
        return (dict,)
    if isinstance(key, str) and key in ACCEPTS and not isinstance(path[-1], int):
        return ACCEPTS[key]
    if isinstance(path[-1], int):
        # list items: transitions or actions or tags or guard children
        if parent_key in ("entry", "exit", "actions"):
            return (str, dict)
        if parent_key == "tags":
            return (str,)
        if parent_key in ("children", "guards"):
            return (str, dict)
        return (str, dict)
    # inside meta / context / params / input / output: free-form
    return ()


def free_form(path) -> bool:
    return any(p in ("meta", "context", "params", "input", "output") for p in path[:-1])


def drive(cfg) -> Tuple[Optional[BaseException], Any]:
    """create_machine -> start -> events (depth 2) -> can(); returns (exception, traces)."""
    try:
        events = C.events_of(cfg) if isinstance(cfg, dict) else []
    except Exception:
        events = []
    try:
        traces = {}
        for gv in (True, False):
            t, _ = C.run_trace(cfg, events, 2, gv)
            traces[gv] = t
        log: List[tuple] = []
        from ..threads import Installed

        with Installed():
            m = create_machine(copy.deepcopy(cfg), logic=C.corpus_logic(cfg, log))
            i = SyncInterpreter(m)
            i.start()
            for ev in events:
                i.can(ev)
            i.stop()
        return None, traces
    except BaseException as exc:  # noqa: BLE001
        if isinstance(exc, (KeyboardInterrupt, SystemExit)):
            raise
        return exc, None


def run_corruptions(name: str, cfg, res):
    base_exc, base_traces = drive(cfg)
    if base_exc is not None:
        raise AssertionError(f"corpus machine {name} does not run: {base_exc!r}")
    for path, key, parent_key, cur in positions(cfg):
        if free_form(path):
            continue
        acc = accepted_types(path, key, parent_key, cur)
        for w in WRONG:
            if acc and isinstance(w, acc) and not (isinstance(w, bool) and bool not in acc and int in acc and False):
                # bool is an int in Python: keep True as a wrong value where only int is accepted
                if not (isinstance(w, bool) and bool not in acc):
                    continue
            if type(w) is type(cur) and not isinstance(cur, (dict, list)):
                continue
            if isinstance(cur, dict) and isinstance(w, dict) or isinstance(cur, list) and isinstance(w, list):
                # same container type: an emptied / foreign container is a VALUE change, not a type change
                continue
            c2 = copy.deepcopy(cfg)
            set_at(c2, path, copy.deepcopy(w))
            res["evaluations"] += 1
            res["executions"] += 1
            res["distinct_count"] += 1
            exc, traces = drive(c2)
            where = "/".join(str(p) for p in path)
            keyname = key if isinstance(key, str) else str(parent_key)
            wt = type(w).__name__ if w not in ([], {}) else ("emptylist" if w == [] else "emptydict")
            if exc is None:
                if traces != base_traces:
                    res["violations"].append(dict(
                        signature=f"C18|wrong-type-silently-changes-behaviour|key={keyname}|value={wt}", clause="silently-accepted",
                        what=f"machine {name}: {where} = {w!r} (was {cur!r:.60}) is accepted and the machine behaves differently", size=len(path),
                        replay=dict(kind="corrupt", machine=name, path=list(path), value=w)))
            elif not isinstance(exc, XStateMachineError):
                res["violations"].append(dict(
                    signature=f"C18|wrong-type-raw-{type(exc).__name__}|key={keyname}|value={wt}", clause="raw-exception",
                    what=f"machine {name}: {where} = {w!r} (was {cur!r:.60}) raises raw {type(exc).__name__}: {exc}", size=len(path),
                    replay=dict(kind="corrupt", machine=name, path=list(path), value=w)))


def run_pair_corruptions(name: str, cfg, res):
    """Two-point corruptions around a key the parser reads BEFORE it validates its neighbour: in every compound state the
    'initial' key is deleted and 'states' replaced by each wrong-typed value (the initial child is then inferred from
    'states'); likewise 'on' / 'after' / 'invoke' wrong-typed with 'initial' deleted."""
    for spath, st in walk_states(cfg):
        if not isinstance(st.get("states"), dict) or not st["states"]:
            continue
        for key in ("states", "on", "after", "invoke"):
            for w in WRONG:
                if isinstance(w, dict) or (key == "invoke" and isinstance(w, (str, list))) or (w is None and key != "states"):
                    continue
                c2 = copy.deepcopy(cfg)
                node = get_at(c2, spath)
                node.pop("initial", None)
                node[key] = copy.deepcopy(w)
                res["evaluations"] += 1
                res["executions"] += 1
                res["distinct_count"] += 1
                exc, _ = drive(c2)
                where = "/".join(str(p) for p in spath) or "<root>"
                if exc is not None and not isinstance(exc, XStateMachineError):
                    res["violations"].append(dict(
                        signature=f"C18|wrong-type-raw-{type(exc).__name__}|key={key}+initial-omitted", clause="raw-exception",
                        what=f"machine {name}: state {where} with 'initial' omitted and {key} = {w!r} raises raw {type(exc).__name__}: {exc}",
                        size=len(spath), replay=dict(kind="pair", machine=name, path=list(spath), key=key, value=w)))


def collide_machines(tier: str) -> Dict[str, Dict[str, Any]]:
    """Machines whose state keys repeat at every level (x / y under x / y under x ...): a spelling that is looked up in the
    wrong scope finds a state - the wrong one - instead of failing.  Every state has one event per target state, written
    in the '#id' form; target_rewrites() then respells it in every way the reference resolver maps to the same state."""
    out: Dict[str, Dict[str, Any]] = {}
    keys = ("x", "y")
    shapes = []
    for xs in (0, 1):          # x compound?
        for ys in (0, 1):      # y compound?
            for xxs in ((0, 1) if xs else (0,)):   # x.x compound?
                shapes.append((xs, ys, xxs))
    if tier == "quick":
        shapes = [sh for sh in shapes if sh in ((1, 0, 0), (1, 1, 0), (1, 0, 1))]
    for xs, ys, xxs in shapes:
        def kids(deeper):
            return {k: ({"initial": "x", "states": deeper(k)} if deeper(k) else {}) for k in keys}
        lvl3 = {k: {} for k in keys}
        lvl2x = {k: ({"initial": "x", "states": copy.deepcopy(lvl3)} if (k == "x" and xxs) else {}) for k in keys}
        lvl2y = {k: {} for k in keys}
        cfg = {"id": "m", "initial": "x", "states": {
            "x": ({"initial": "x", "states": lvl2x} if xs else {}),
            "y": ({"initial": "x", "states": lvl2y} if ys else {})}}
        # universal transitions
        ids: List[Tuple[str, Dict[str, Any]]] = []

        def walk(node, nid):
            for k, c in (node.get("states") or {}).items():
                ids.append((nid + "." + k, c))
                walk(c, nid + "." + k)
        walk(cfg, "m")
        for i, (sid, snode) in enumerate(ids):
            snode["on"] = {f"T{i}_{j}": {"target": "#" + tid, "actions": [f"a{i}_{j}"]} for j, (tid, _) in enumerate(ids)}
        out[f"collide:{xs}{ys}{xxs}"] = cfg
    return out


def extra_machines() -> Dict[str, Dict[str, Any]]:
    from xstate_statemachine import actions as A

    return {"choose": {
        "id": "ch", "initial": "a", "states": {
            "a": {"entry": [A.choose([{"cond": "isAlt", "actions": "enAlt"}, {"actions": [{"type": "enDefault"}]}])],
                  "on": {"E": {"target": "b", "actions": [A.choose([{"guard": "isOk", "actions": ["mark", "mark2"]},
                                                                     {"guard": {"type": "not", "children": ["isOk"]}, "actions": {"type": "other", "params": {"k": 1}}}]), "tail"]}}},
            "b": {"on": {"BACK": "a"}}}}}


def machine_by_name(name: str):
    if name in extra_machines():
        return extra_machines()[name]
    if name in C.corpus():
        return C.corpus()[name]
    if name.startswith("collide:"):
        return collide_machines("thorough")[name]
    for t in F.trees_upto(4):
        if F.tree_str(t) == name:
            return F.universal_config(t, reenter_all=False)[0]
    raise KeyError(name)


def run_dupids(label: str, cfg, res):
    """Every pair of distinct non-root, non-history states is given the SAME custom id (siblings, cousins, a state and
    its descendant, states of different depth): duplicate ids are rejected with an XStateMachineError, never accepted
    with one of the two silently winning.  One of the states' events is retargeted at '#dup' so that, were the machine
    accepted, the id would be in use."""
    paths = [p for p, n in walk_states(cfg) if p and n.get("type") != "history"]
    for a, b in itertools.combinations(paths, 2):
        c2 = copy.deepcopy(cfg)
        get_at(c2, a)["id"] = "dup"
        get_at(c2, b)["id"] = "dup"
        on = get_at(c2, a).setdefault("on", {})
        on["TO_DUP"] = {"target": "#dup"}
        res["evaluations"] += 1
        res["executions"] += 1
        res["distinct_count"] += 1
        exc, _ = drive(c2)
        rel = "state-and-descendant" if (b[:len(a)] == a or a[:len(b)] == b) else ("siblings" if a[:-2] == b[:-2] else "different-branches")
        where = f"{'.'.join(str(x) for x in a if x != 'states')} and {'.'.join(str(x) for x in b if x != 'states')}"
        if exc is None:
            res["violations"].append(dict(
                signature=f"C18|duplicate-id-accepted|{rel}", clause="silently-accepted",
                what=f"machine {label}: states {where} both declare id 'dup' and the config is accepted (create_machine, start, can)",
                size=len(a) + len(b), replay=dict(kind="dupid", machine=label, a=list(a), b=list(b))))
        elif not isinstance(exc, XStateMachineError):
            res["violations"].append(dict(
                signature=f"C18|duplicate-id-raw-{type(exc).__name__}|{rel}", clause="raw-exception",
                what=f"machine {label}: states {where} both declare id 'dup': raw {type(exc).__name__}: {exc}",
                size=len(a) + len(b), replay=dict(kind="dupid", machine=label, a=list(a), b=list(b))))


def units(tier: str) -> List[Any]:
    us: List[Any] = []
    for t in F.trees_upto(3 if tier == "quick" else 4):
        us.append(("dupid", t, tier))
    for name in collide_machines(tier):
        us.append(("dupid", name, tier))
    for name in C.corpus():
        us.append(("equiv", name, tier))
        us.append(("corrupt", name, tier))
    for name in extra_machines():
        us.append(("equiv", name, tier))
    for t in F.trees_upto(2 if tier == "quick" else 3):
        us.append(("tree", t, tier))
    for name in collide_machines(tier):
        us.append(("collide", name, tier))
    us.append(("toplevel", None, tier))
    return us


def run_unit(unit):
    kind, payload, tier = unit
    res = dict(states=0, transitions=0, executions=0, evaluations=0, distinct_count=0, violations=[], samples=[], caps=[])
    if kind == "equiv":
        cfg = machine_by_name(payload)
        rws = rewrites(cfg) + target_rewrites(cfg)
        for rw in rws:
            check_equiv(payload, cfg, [rw], res, payload)
        if tier == "thorough":
            for a, b in itertools.combinations(rws, 2):
                if overlapping(site_of(a[0]), site_of(b[0])):
                    continue  # nested sites: the second rewrite's path may be gone
                check_equiv(payload, cfg, [a, b], res, payload)
        # all at once: one rewrite per site, first listed
        seen_sites, chosen = [], []
        for rw in rws:
            site = site_of(rw[0])
            if not any(overlapping(site, s2) for s2 in seen_sites):
                seen_sites.append(site)
                chosen.append(rw)
        check_equiv(payload, cfg, chosen, res, payload)
        res["samples"].append(dict(machine=payload, single_rewrites=len(rws), example=[d for d, _ in rws[:3]]))
    elif kind == "tree":
        cfg, nodes, events = F.universal_config(payload, reenter_all=False)
        rws = target_rewrites(cfg)
        for rw in rws:
            check_equiv(F.tree_str(payload), cfg, [rw], res, F.tree_str(payload))
        res["samples"].append(dict(machine=F.tree_str(payload), target_respellings=len(rws)))
    elif kind == "collide":
        cfg = collide_machines(tier)[payload]
        rws = target_rewrites(cfg)
        for rw in rws:
            check_equiv(payload, cfg, [rw], res, payload)
        res["samples"].append(dict(machine=payload, target_respellings=len(rws), example=[d for d, _ in rws[:3]]))
    elif kind == "dupid":
        if isinstance(payload, str):
            run_dupids(payload, collide_machines(tier)[payload], res)
        else:
            run_dupids(F.tree_str(payload), F.universal_config(payload, reenter_all=False)[0], res)
        res["samples"].append(dict(machine=payload if isinstance(payload, str) else F.tree_str(payload), duplicate_id_pairs=res["evaluations"]))
    elif kind == "corrupt":
        run_corruptions(payload, C.corpus()[payload], res)
        run_pair_corruptions(payload, C.corpus()[payload], res)
        res["samples"].append(dict(machine=payload, corruptions=res["evaluations"]))
    else:
        # the config object itself
        for w in WRONG + [[{"id": "x"}]]:
            res["evaluations"] += 1
            res["executions"] += 1
            res["distinct_count"] += 1
            try:
                create_machine(w, logic=MachineLogic())  # type: ignore[arg-type]
                res["violations"].append(dict(signature="C18|non-object-config-accepted", clause="silently-accepted",
                                              what=f"create_machine({w!r}) was accepted", size=0, replay=dict(kind="toplevel", value=w)))
            except XStateMachineError:
                pass
            except Exception as exc:  # noqa: BLE001
                res["violations"].append(dict(signature=f"C18|non-object-config-raw-{type(exc).__name__}", clause="raw-exception",
                                              what=f"create_machine({w!r}) raises raw {type(exc).__name__}: {exc}", size=0,
                                              replay=dict(kind="toplevel", value=w)))
    res["states"] = res["executions"]
    res["transitions"] = res["executions"]
    return res


def replay(payload):
    if payload["kind"] == "corrupt":
        cfg = copy.deepcopy(C.corpus()[payload["machine"]])
        set_at(cfg, payload["path"], payload["value"])
        exc, traces = drive(cfg)
        print("  outcome:", repr(exc))
        if exc is not None and not isinstance(exc, XStateMachineError):
            return [dict(signature="C18|raw", what=repr(exc))]
        return []
    if payload["kind"] == "pair":
        cfg = copy.deepcopy(C.corpus()[payload["machine"]])
        node = get_at(cfg, payload["path"])
        node.pop("initial", None)
        node[payload["key"]] = payload["value"]
        exc, _ = drive(cfg)
        print("  outcome:", repr(exc))
        return [dict(signature="C18|raw", what=repr(exc))] if exc is not None and not isinstance(exc, XStateMachineError) else []
    if payload["kind"] == "dupid":
        cfg = copy.deepcopy(machine_by_name(payload["machine"]))
        get_at(cfg, payload["a"])["id"] = "dup"
        get_at(cfg, payload["b"])["id"] = "dup"
        get_at(cfg, payload["a"]).setdefault("on", {})["TO_DUP"] = {"target": "#dup"}
        exc, _ = drive(cfg)
        print("  outcome:", repr(exc))
        return [] if isinstance(exc, XStateMachineError) else [dict(signature="C18|duplicate-id", what=repr(exc))]
    if payload["kind"] == "equiv":
        cfg = machine_by_name(payload["machine"])
        allrw = dict(rewrites(cfg) + target_rewrites(cfg))
        res = dict(states=0, transitions=0, executions=0, evaluations=0, distinct_count=0, violations=[], samples=[], caps=[])
        check_equiv(payload["machine"], cfg, [(d, allrw[d]) for d in payload["rewrites"]], res, payload["machine"])
        for v in res["violations"]:
            print("  ", v["what"][:400])
        return res["violations"]
    return []
