"""C10 — completion: onDone exactly once; a top-level final state ends the machine.

DONE family: every TREE(N) tree containing a final state, as a universal machine
(events to complete, un-complete and re-complete every region), decorated with
onDone handlers (all eligible nodes / each eligible node alone / one leaving
handler), final-state outputs and optionally a machine-level output.  A
reference counter (not a reference engine) predicts, for every final-state entry
observed in the log, which done.state events are due.
"""
from __future__ import annotations

from typing import Any, Dict, List, Optional, Tuple

from .. import families as F
from ..core import Budget
from ..drivers import Harness, jsonable
from ..e1 import bfs, build

LEVEL = "model_checking"
RULE = (
    "every TREE(N) tree with a final state x onDone decoration (all / single / single-leaving) x machine-output "
    "(none / an object / the falsy values 0, {} and a callable returning 0) as a universal machine, BFS to closure on sync and async; a case is one step; for every final-state "
    "entry in the step's log the reference counter derives the due onDone firings (compound: parent of the "
    "entered final child; parallel: when every non-history region is in a final state at that instant) and the "
    "multiset of observed onDone markers with their event data must equal it; top-level (also with a second event queued behind the completing one in a send_events batch): status done once, "
    "output precedence, no reaction to events afterwards; distinct_nontrivial = distinct canonical states"
)
BOUNDS = {
    "quick": "final-state trees of TREE(N<=4) + 9 nested-parallel completion skeletons C(C(P(s1,s2),F),A) + irregular larger trees holding a final state (onDone on every eligible state) x decorations x {sync, async}",
    "thorough": "final-state trees of TREE(N<=5) + 23 nested-parallel completion skeletons x decorations x {sync, async}",
}
ASSUMPTIONS = [
    "strict reading: a compound state's onDone is due only when one of its own children that is a final state "
    "is entered (XState isInFinalState); completion of a nested compound does not complete its parent compound",
    "a done event whose state was exited by an earlier handler of the same step is not due (single-leaving "
    "decoration only decorates one node, so this cannot arise there)",
]
ENGINES = ("sync", "async")


def _fn_zero(args):
    return 0


# machine-level output variants: unit value -> (declared output, value the machine must report)
MOUT = {True: ({"machine": True}, {"machine": True}), "zero": (0, 0), "empty": ({}, {}), "fn-zero": (_fn_zero, 0)}


def eligible(nodes: List[F.N]) -> List[F.N]:
    # A compound ROOT is not decorated: entering its final child ends the machine
    # ("no user code runs afterwards"), which the same statement ranks above a
    # root-level onDone; the two clauses conflict there, so it is not judged.
    return [
        n for n in nodes
        if n.kind in ("C", "P") and any(d.kind == "F" for d in n.descendants())
        and not (n.parent is None and n.kind == "C")
    ]


def units(tier: str) -> List[Any]:
    n = 4 if tier == "quick" else 5
    out = []
    for t in F.big_skeletons(tier):
        if "F" in F.tree_kinds(t):
            out.append((t, "all", None, False))
            if tier != "quick":
                out.append((t, "all", None, True))
    for t in list(F.trees_upto(n)) + F.done_skeletons(tier):
        if "F" not in F.tree_kinds(t):
            continue
        nodes = F.flatten(t)
        el = eligible(nodes)
        out.append((t, "all", None, False))
        out.append((t, "all", None, True))
        if nodes[0].kind == "C" and any(c.kind == "F" for c in nodes[0].children):
            # a declared machine-level output that is a falsy value is still THE output
            for mo in ("zero", "empty", "fn-zero"):
                out.append((t, "all", None, mo))
        for x in el:
            out.append((t, "single", x.idx, False))
            if x.idx != 0:
                out.append((t, "leave", x.idx, False))
    return out


def build_cfg(unit):
    tree, mode, x, mout = unit
    cfg, nodes, events = F.universal_config(tree, reenter_all=False)
    el = eligible(nodes)
    decorated = el if mode == "all" else [nodes[x]]
    for n in nodes:
        if n.kind == "F":
            # placeholder; run_unit replaces it by a callable that stamps every evaluation (a fresh value per completion)
            F.cfg_node(cfg, n)["output"] = {"from": n.id}
    for n in decorated:
        sub = F.cfg_node(cfg, n)
        od: Dict[str, Any] = {"actions": [{"type": "od", "params": {"id": n.id}}]}
        if mode == "leave":
            # leave to the root's first non-history child
            first = next(c for c in nodes[0].children if not c.is_history)
            od["target"] = f"#{first.id}"
        sub["onDone"] = od
    if mout:
        cfg["output"] = MOUT[mout][0]
    return cfg, nodes, events, [n.id for n in decorated]


def in_final(byid, conf, n: F.N) -> bool:
    """Reference XState isInFinalState on a configuration."""
    if n.kind == "F":
        return n.id in conf
    if n.kind == "C":
        return any(c.kind == "F" and c.id in conf for c in n.children)
    if n.kind == "P":
        regs = [c for c in n.children if not c.is_history]
        return all(in_final(byid, conf, c) for c in regs)
    return False


def in_final_rec(byid, conf, n: F.N) -> bool:
    """The library's documented recursive notion (`_is_state_done`): a compound
    state is done when its active child is done."""
    if n.kind == "F":
        return n.id in conf
    if n.kind == "C":
        return any(c.id in conf and in_final_rec(byid, conf, c) for c in n.children if not c.is_history)
    if n.kind == "P":
        regs = [c for c in n.children if not c.is_history]
        return all(c.id in conf and in_final_rec(byid, conf, c) for c in regs)
    return False


def due_on_entry_rec(byid, conf, f: F.N, decorated) -> List[str]:
    """Due events under the recursive reading: nearest decorated done ancestor,
    then decorated parallel ancestors that are done."""
    due = []
    fired = False
    Y = f.parent
    while Y is not None:
        if Y.id in decorated and (not fired or Y.kind == "P") and in_final_rec(byid, conf, Y):
            due.append(Y.id)
            fired = True
        Y = Y.parent
    return due


def due_on_entry(byid, conf, f: F.N, decorated) -> List[str]:
    """done.state ids due when final state f has just been entered with `conf` active."""
    due = []
    X = f.parent
    if X is None:
        return due
    if X.id in decorated:
        due.append(X.id)
    Y = X.parent
    child = X
    while Y is not None:
        if Y.kind == "P" and in_final(byid, conf, Y):
            if Y.id in decorated:
                due.append(Y.id)
            child, Y = Y, Y.parent
            continue
        break
    return due


def run_unit(unit):
    tree, mode, x, mout = unit
    cfg, nodes, events, decorated = build_cfg(unit)
    byid = {n.id: n for n in nodes}
    label = f"{F.tree_str(tree)}+onDone[{mode}{'' if x is None else ':' + nodes[x].id}]" + ("" if not mout else "+machineOutput" if mout is True else f"+machineOutput[{mout}]")
    res = dict(states=0, transitions=0, executions=0, distinct_count=0, violations=[], samples=[], caps=[])
    for engine in ENGINES:
        h = Harness(cfg, with_plugin=True)
        rec = h.rec
        # final-state outputs are callables: each evaluation logs ("OUT", id, k) with a fresh k, so the data a done event
        # carries can be tied to an evaluation made during THIS completion (a cached value of an earlier one shows)
        # (the stamp is the context counter c, bumped mod 3 by every onDone handler: deterministic per history)
        def out_cb(fid, rec=rec):
            def f(args):
                k = args["context"].get("c", 0)
                rec.log.append(("OUT", fid, k))
                return {"from": fid, "k": k}
            return f

        for n in nodes:
            if n.kind == "F":
                F.cfg_node(cfg, n)["output"] = out_cb(n.id)
        cfg.setdefault("context", {})["c"] = 0
        h.cfg = cfg

        def od_action(interp, ctx, event, action_def, rec=rec):
            rec.log.append(("OD", action_def.params["id"], jsonable(getattr(event, "data", None)), event.type))
            ctx["c"] = (ctx.get("c", 0) + 1) % 3

        h._kw["extra_actions"] = {"od": od_action}
        viol = []

        def flag(clause, detail, hist, ev):
            sig = f"C10|{clause}"
            viol.append(dict(signature=sig, clause=clause,
                             what=f"{engine}: {clause}: {detail}; after {hist + ([ev] if ev else [])} on {label}",
                             size=len(hist) + len(nodes) * 10,
                             replay=dict(unit=unit, engine=engine, hist=hist + ([ev] if ev else []))))

        def judge(seg, hist, ev, status_before, d):
            due: List[Tuple[str, Any]] = []
            due_rec: List[Tuple[str, Any]] = []
            root_final = None
            for e in seg:
                if e[0] == "A" and e[1].startswith("en:"):
                    n = byid[e[1][3:]]
                    if n.kind == "F":
                        for sid in due_on_entry(byid, set(e[4]), n, decorated):
                            due.append((sid, {"from": n.id}))
                        for sid in due_on_entry_rec(byid, set(e[4]), n, decorated):
                            due_rec.append((sid, {"from": n.id}))
                        if n.parent is nodes[0]:
                            root_final = n
            got_full = [(e[1], e[2]) for e in seg if e[0] == "OD"]
            stamps: Dict[str, set] = {}
            for e in seg:
                if e[0] == "OUT":
                    stamps.setdefault(e[1], set()).add(e[2])
            for sid, data in got_full:
                if isinstance(data, dict) and "k" in data and data["k"] not in stamps.get(data.get("from"), set()):
                    flag("done-data-stale", f"done.state.{sid} carries output stamp {data['k']} of {data.get('from')}, "
                         f"but the output evaluations of this completion are {sorted(stamps.get(data.get('from'), []))}", hist, ev)
            got = [(sid, ({"from": data["from"]} if isinstance(data, dict) and "from" in data else data)) for sid, data in got_full]
            if mode != "leave":
                # one external event = one transition of a universal machine: every state is entered at most once in this
                # step, so a decorated state completes at most once in it - two onDone runs of one state are one too many
                # whatever the reading of done-ness (the handler has no target here: the state is not left and re-entered)
                seen_once: Dict[str, int] = {}
                for sid, _d in got:
                    seen_once[sid] = seen_once.get(sid, 0) + 1
                twice = sorted(sid for sid, c in seen_once.items() if c > 1)
                if twice:
                    flag("onDone-twice-for-one-completion(" + byid[twice[0]].kind + ")", f"onDone of {twice} ran more than once in one step: {got}", hist, ev)
            if mode != "leave":
                # the same reasoning for the reference: when one transition enters final states in several regions, each
                # of them saw its parallel ancestor complete in the configuration of its entry action - that is ONE
                # completion, due once (carrying the data of whichever region the engine reports as the last)
                def once(lst):
                    out, seen = [], {}
                    for sid, data in lst:
                        if sid in seen:
                            if (sid, data) in got and out[seen[sid]] not in got:
                                out[seen[sid]] = (sid, data)
                            continue
                        seen[sid] = len(out)
                        out.append((sid, data))
                    return out
                due, due_rec = once(due), once(due_rec)
            kd = sorted(due, key=repr)
            kg = sorted(got, key=repr)
            if mode == "leave":
                # the handler leaves: later due events of exited states are not due
                pass
            if [g[0] for g in kg] != [x_[0] for x_ in kd]:
                extra = [g for g in kg if g not in kd]
                missing = [x_ for x_ in kd if x_ not in kg]
                clause = "onDone-count"
                if kg == sorted(due_rec, key=repr):
                    clause = "onDone-recursive-doneness(nested-compound-completion-completes-its-ancestor)"
                elif extra and not missing:
                    n0 = byid[extra[0][0]]
                    clause = "onDone-extra(" + n0.kind + ")"
                    # refine: which kind of bubbling produced it
                    src = extra[0][1].get("from") if isinstance(extra[0][1], dict) else None
                    if src and byid[src].parent is not n0 and n0.kind == "C":
                        clause = "onDone-extra(compound-fired-for-nested-descendant-final)"
                elif missing and not extra:
                    clause = "onDone-missing(" + byid[missing[0][0]].kind + ")"
                flag(clause, f"due {kd} observed {kg}", hist, ev)
            elif kg != kd:
                flag("done-data", f"due {kd} observed {kg}", hist, ev)
            # top level
            dones = [e for e in seg if e[0] == "DONE"]
            o = d.observe()
            if root_final is not None and status_before == "running":
                if o[2] != "done" and mode != "leave":
                    flag("top-level-final-not-done", f"status {o[2]}", hist, ev)
                if len(dones) != 1 and o[2] == "done":
                    flag("on_done-hook-count", f"{len(dones)} on_done hooks", hist, ev)
                want = MOUT[mout][1] if mout else {"from": root_final.id}
                try:
                    got_out = __import__("json").loads(o[4]) if isinstance(o[4], str) else o[4]
                except ValueError:
                    got_out = o[4]
                if isinstance(got_out, dict) and "k" in got_out:
                    if got_out["k"] not in stamps.get(got_out.get("from"), set()):
                        flag("done-data-stale", f"machine output carries stamp {got_out['k']}, evaluations of this completion: {sorted(stamps.get(got_out.get('from'), []))}", hist, ev)
                    got_out = {k_: v_ for k_, v_ in got_out.items() if k_ != "k"}
                if o[2] == "done" and got_out != want:
                    flag("machine-output", f"expected {want} got {o[4]}", hist, ev)
            elif dones:
                flag("on_done-hook-without-top-level-final", f"{dones}", hist, ev)

        def on_state(d, hist):
            return True

        def on_step(d, hist, ev, mark, key_before):
            seg = d.rec.since(mark)
            if key_before[2] != "running":
                # after completion: nothing may happen
                if d.observe() != key_before:
                    flag("event-after-done-changed-state", f"{key_before} -> {d.observe()}", hist, ev)
                noisy = [e for e in seg if e[0] in ("A", "OD", "TR", "EV", "AX")]
                if noisy:
                    flag("event-after-done-ran-code", f"{noisy[:4]}", hist, ev)
                return False
            judge(seg, hist, ev, key_before[2], d)
            if d.observe()[2] == "done":
                # the step that completes the machine, again, with a second event queued BEHIND it in the same batch:
                # "from then on sent events are ignored and no user code runs" holds for what is already queued too
                probe = next((n for n, e in events.items() if e["kind"] == "T" and e["src"] == nodes[0].id), None)
                if probe is not None:
                    d2, _ = build(h, engine, hist)
                    try:
                        m2 = d2.rec.mark()
                        d2.send_batch([ev, probe])
                        if engine == "async":
                            d2.settle()
                        seg2 = d2.rec.since(m2)
                        late = [e for e in seg2 if (e[0] == "EV" and e[1] == probe) or (e[0] == "A" and str(e[1]).startswith("tr:" + probe))]
                        if late:
                            flag("queued-event-processed-after-done", f"batch [{ev}, {probe}]: {late[:3]}", hist, ev)
                    finally:
                        d2.close()
            return True

        def menu(d):
            o = d.observe()
            evs = [n for n, e in events.items() if e["kind"] == "T"]
            if o[2] != "running":
                return evs[:3]
            conf = set(o[0])
            return [n for n in evs if events[n]["src"] in conf]

        # start-up step
        try:
            d0, err0 = build(h, engine, [])
        except Budget:
            res.setdefault("counters", {})["machines_nonterminating_at_start_skipped"] = (
                res.get("counters", {}).get("machines_nonterminating_at_start_skipped", 0) + 1)
            continue
        try:
            if err0 is not None:
                raise AssertionError(f"{label} failed to start {err0!r}")
            judge(d0.rec.since(0), [], None, "running", d0)
        finally:
            d0.close()
        cl = bfs(h, engine, menu, on_state, on_step)
        res["states"] += cl.states
        res["transitions"] += cl.transitions
        res["executions"] += cl.executions + 1
        res["distinct_count"] += cl.states
        res["violations"].extend(viol)
    res["samples"].append(dict(machine=label, states_total=res["states"], transitions_total=res["transitions"]))
    return res


def replay(payload):
    from .c01 import _tuplify

    unit = _tuplify(payload["unit"])
    res = run_unit(unit)
    out = [v for v in res["violations"] if v["replay"]["hist"] == payload["hist"] and v["replay"]["engine"] == payload["engine"]]
    for v in out:
        print("  ", v["what"])
    return out
