"""C04 — run-to-completion and lossless, ordered event processing.

RTC machines whose actions raise events, call interpreter.send()/send_events()
re-entrantly (also from entry actions during start()), suspend (async), or have
eventless follow-ups; driven by every short operation sequence (sync) and by
every environment script x schedule choice (async: producers, an after-timer and a
service completing mid-macrostep).  Judged on the on_event_received order and the
event attribution of every marker.
"""
from __future__ import annotations

import asyncio
import itertools
from typing import Any, Dict, List, Optional, Tuple

from xstate_statemachine import actions as A

from .. import core
from ..core import Budget
from ..drivers import Harness
from ..e2 import Choices, explore
from ..timeline import EPS, run_async, run_sync

UNIT_TIMEOUT = 900  # backstop against a hung unit only; thread-slice subtrees can take minutes on a loaded machine
LEVEL = "exploration"
RULE = (
    "RESUME: every sequence of <=2 send / send_events operations placed between from_snapshot() and start() of a restored interpreter (snapshot after 0-2 events), then one event after start: everything accepted is processed once, in order; HOOK: send / send_events issued from a plugin's on_interpreter_start hook are processed once, in order, after the initial entry; "
    "RTC machine: numbered external events E(n) whose handler brackets its work with start/end markers (async: suspends "
    "in between), R raises two events, S calls interpreter.send() from inside an action, B calls send_events() from inside "
    "an action, T enters a state with an eventless follow-up chain, W arms an after-timer and a service that complete while "
    "later events are being processed; START variants raise / send during the initial entry, with a suspending entry action "
    "behind them (async), or with an eventless follow-up in the initial configuration whose action and target entry suspend, or which itself raises and sends. Sync: every operation sequence up to the length bound; async: every environment script (ops at grid "
    "instants incl. the same instant) x every schedule choice. Oracle: processed multiset = accepted multiset (exactly once), "
    "per-sender FIFO, every marker carries the event of the macrostep it runs in, bracket markers of one action list are never "
    "separated by another event's reception, nothing is received before the initial entry has finished, legal final "
    "configuration. Sync threads (E3p): caller threads and the after-timer thread are virtual threads, every interleaving at "
    "line granularity inside send / send_events / _process_event_queue with at most the stated number of preemptions is run; "
    "oracle: when all threads have returned no event is left in the queue, every accepted event was processed exactly once, "
    "per-sender order, no two threads inside _process_event at once, no thread raised; distinct_nontrivial = distinct (variant, engine, script, schedule, reception order)"
)
BOUNDS = {
    "quick": "sync: sequences of length <=3 over 8 ops; async: scripts of length <=3 over a 3-point grid, all tie orders; sync threads: 7 producer sets, every line-level interleaving with <=1-2 preemptions",
    "thorough": "sync: length <=4; async: scripts of length <=4; sync threads: <=2-3 preemptions",
}
ASSUMPTIONS = [
    "thread slice: scheduling points are the source lines of SyncInterpreter.send / send_events / _process_event_queue and every blocking call; two or three threads (callers, one after-timer thread); a timer's timeout may elapse at any point",
]
ENGINES = ("sync", "async")
GRID = (0.0, 0.0625, 0.125)
HORIZON = 1.0
OPS = ["E", "R", "S", "B", "BT", "T", "W", "U"]


def make(engine: str, variant: str, rec) -> Dict[str, Any]:
    is_async = engine == "async"

    if is_async:
        async def work(interp, ctx, ev, ad):
            rec.log.append(("W0", ev.type, ev.payload.get("n")))
            await asyncio.sleep(0.03125)
            rec.log.append(("W1", ev.type, ev.payload.get("n")))

        async def resend(interp, ctx, ev, ad):
            await interp.send("X", n=ev.payload.get("n"))

        async def resend_batch(interp, ctx, ev, ad):
            await interp.send_events([{"type": "X", "n": ev.payload.get("n")}, {"type": "Y", "n": ev.payload.get("n")}])

        async def resend_batch_t(interp, ctx, ev, ad):
            n = ev.payload.get("n")
            await interp.send_events([{"type": "T", "n": n}, {"type": "X", "n": n}, {"type": "Y", "n": n}])

        async def suspend(interp, ctx, ev, ad):
            await asyncio.sleep(0)
            await asyncio.sleep(0.015625)

        async def svc(interp, ctx, ev):
            await asyncio.sleep(0.09375)
            return "ok"
    else:
        def work(interp, ctx, ev, ad):
            rec.log.append(("W0", ev.type, ev.payload.get("n")))
            rec.log.append(("W1", ev.type, ev.payload.get("n")))

        def resend(interp, ctx, ev, ad):
            interp.send("X", n=ev.payload.get("n"))

        def resend_batch(interp, ctx, ev, ad):
            interp.send_events([{"type": "X", "n": ev.payload.get("n")}, {"type": "Y", "n": ev.payload.get("n")}])

        def resend_batch_t(interp, ctx, ev, ad):
            n = ev.payload.get("n")
            interp.send_events([{"type": "T", "n": n}, {"type": "X", "n": n}, {"type": "Y", "n": n}])

        def suspend(interp, ctx, ev, ad):
            return None

        def svc(interp, ctx, ev):
            return "ok"

    fwd = lambda t: (lambda a: {"type": t, "n": a["event"].payload.get("n")})  # noqa: E731
    root_entry: List[Any] = ["mk:en_m"]
    a_entry: List[Any] = ["mk:en_a"]
    if variant == "start-raise":
        root_entry += [A.raise_({"type": "X", "n": 0}), "mk:en_m2"]
        a_entry += ["suspend", "mk:en_a2"]
    elif variant == "start-send":
        root_entry += ["resend0", "mk:en_m2"]
        a_entry += ["suspend", "mk:en_a2"]
    elif variant == "start-go":
        # an event raised during the initial entry that LEAVES the state being entered
        root_entry += [A.raise_({"type": "T", "n": 0}), "mk:en_m2"]
        a_entry += ["suspend", "mk:en_a2"]

    elif variant == "start-always-raise":
        # the eventless follow-up of the initial configuration itself raises / sends: still part of the initial macrostep
        pass
    elif variant == "start-always":
        # the initial configuration has an eventless follow-up whose action suspends; an event raised by the root's entry
        # must wait until that follow-up has completed (the initial macrostep includes its always transitions)
        root_entry += [A.raise_({"type": "X", "n": 0}), "mk:en_m2"]

    if is_async:
        async def resend0(interp, ctx, ev, ad):
            await interp.send("X", n=0)
    else:
        def resend0(interp, ctx, ev, ad):
            interp.send("X", n=0)

    if is_async:
        async def resend0y(interp, ctx, ev, ad):
            await interp.send("Y", n=0)
    else:
        def resend0y(interp, ctx, ev, ad):
            interp.send("Y", n=0)

    cfg = {
        "id": "m", "initial": "a", "context": {"k": 0}, "entry": root_entry,
        "states": {
            "a": {"entry": a_entry, "initial": "a1",
                  "states": {"a1": dict({"entry": ["mk:en_a1"]}, **({"always": {"target": "a2", "actions": ["mk:alw0s", "suspend", "mk:alw0e"]}} if variant == "start-always" else
                                             {"always": {"target": "a2", "guard": "first_time", "actions": [A.assign({"k2": 1}), "mk:alw0s", A.raise_({"type": "X", "n": 0}), "resend0y", "suspend", "mk:alw0e"]}} if variant == "start-always-raise" else {})),
                             "a2": {"entry": ["suspend", "mk:en_a2x"]}},
                  "on": {"T": "b", "W": "w"}},
            "b": {"entry": ["mk:en_b"], "always": [{"target": "c", "actions": ["mk:alw1"]}]},
            "c": {"entry": ["mk:en_c"], "always": [{"guard": "once", "target": "a", "actions": [A.assign({"k": 1}), "mk:alw2"]}],
                  "on": {"T": "a"}},
            "w": {"entry": ["mk:en_w"], "after": {"62": {"target": "a", "actions": ["mk:after"]}},
                  "invoke": {"id": "sv", "src": "svc", "onDone": {"actions": ["mk:svdone"]}},
                  "on": {"T": "a"}},
        },
        "on": {
            "E": {"actions": ["mk:e1", "work", "mk:e2"]},
            "R": {"actions": ["mk:r1", A.raise_(fwd("X")), A.raise_(fwd("Y")), "mk:r2"]},
            "S": {"actions": ["mk:s1", "resend", "mk:s2"]},
            "B": {"actions": ["mk:b1", "resend_batch", "mk:b2"]},
            "BT": {"actions": ["mk:b1", "resend_batch_t", "mk:b2"]},
            "X": {"actions": ["mk:x"]},
            "Y": {"actions": ["mk:y"]},
        },
    }
    return dict(cfg=cfg, actions={"work": work, "resend": resend, "resend_batch": resend_batch, "resend_batch_t": resend_batch_t, "suspend": suspend, "resend0": resend0, "resend0y": resend0y},
                services={"svc": svc}, guards={"once": lambda c, e, p=None: c.get("k", 0) == 0, "first_time": lambda c, e, p=None: c.get("k2", 0) == 0})


BRACKETS = {"mk:e1": "mk:e2", "mk:r1": "mk:r2", "mk:s1": "mk:s2", "mk:b1": "mk:b2", "mk:alw0s": "mk:en_a2x", "mk:en_m": None}
INTERNAL_PREFIX = ("done.", "error.", "after.")


def judge(variant: str, engine: str, sent: List[Tuple[str, int]], log: List[tuple], d) -> List[Tuple[str, str]]:
    bad: List[Tuple[str, str]] = []
    # ---- expected accepted multiset
    expect: List[Tuple[str, Any]] = []
    for t, n in sent:
        expect.append((t, n))
        if t == "R":
            expect += [("X", n), ("Y", n)]
        elif t == "S":
            expect += [("X", n)]
        elif t == "B":
            expect += [("X", n), ("Y", n)]
        elif t == "BT":
            expect += [("T", n), ("X", n), ("Y", n)]
    if variant in ("start-raise", "start-send", "start-always", "start-always-raise"):
        expect.append(("X", 0))
    if variant == "start-always-raise":
        expect.append(("Y", 0))
    elif variant == "start-go":
        expect.append(("T", 0))
    evs = [(e[1], e[2]) for e in log if e[0] == "EV" and not str(e[1]).startswith(INTERNAL_PREFIX) and e[1] != ""]
    if sorted(evs, key=repr) != sorted(expect, key=repr):
        lost = [x for x in expect if evs.count(x) < expect.count(x)]
        dup = [x for x in evs if evs.count(x) > expect.count(x)]
        clause = "event-lost" if lost else "event-duplicated-or-unexpected"
        bad.append((clause, f"received {evs}, accepted {expect}; lost {sorted(set(lost), key=repr)} extra {sorted(set(dup), key=repr)}"))
    # ---- per-sender FIFO: external events in sending order; raised X before Y of the same n
    bt = {n for t, n in sent if t == "BT"}
    ext = [x for x in evs if x[0] in ("E", "R", "S", "B", "BT", "T", "W", "U") and x[1] != 0 and not (x[0] == "T" and x[1] in bt)]
    sent_seq = [(t, n) for t, n in sent]
    if ext != sent_seq and sorted(ext, key=repr) == sorted(sent_seq, key=repr):
        bad.append(("sender-order", f"received external events in order {ext}, sent {sent_seq}"))
    for t, n in sent:
        if t in ("R", "B", "BT"):
            if ("X", n) in evs and ("Y", n) in evs and evs.index(("X", n)) > evs.index(("Y", n)):
                bad.append(("raised-order", f"Y({n}) processed before X({n})"))
    # ---- no interleaving: walk the log
    cur: Optional[Tuple[str, Any]] = None
    open_brackets: List[str] = []
    init_done = False
    last_init_marker = max([i for i, e in enumerate(log) if e[0] == "A" and (e[2] in ("___xstate_statemachine_init___",) or str(e[2]).startswith("entry."))], default=-1)
    for i, e in enumerate(log):
        if e[0] == "EV":
            if i < last_init_marker and variant != "plain":
                bad.append(("event-received-before-initial-entry-finished", f"{e[1:3]} received while the initial entry was still running"))
            if open_brackets:
                bad.append(("re-entrant-processing", f"{e[1:3]} received inside the action list opened by {open_brackets[-1]}"))
            cur = (e[1], e[2])
        elif e[0] == "W0":
            open_brackets.append("work")
        elif e[0] == "W1":
            if open_brackets and open_brackets[-1] == "work":
                open_brackets.pop()
        elif e[0] == "A":
            name, et, n = e[1], e[2], e[3]
            if name in BRACKETS and BRACKETS[name]:
                open_brackets.append(name)
            elif name in BRACKETS.values():
                if open_brackets:
                    open_brackets.pop()
            if cur is not None and et not in (cur[0], "") and not (et in ("___xstate_statemachine_init___",) or str(et).startswith("entry.")):
                bad.append(("action-attributed-to-another-event", f"{name} ran with event {et!r} while {cur} was being processed"))
    # ---- legal final configuration (one top-level child, a has its child)
    conf = set(d.observe()[0])
    tops = [c for c in conf if c.count(".") == 1]
    if "m" not in conf or len(tops) != 1 or ("m.a" in conf) != (len({"m.a.a1", "m.a.a2"} & conf) == 1):
        bad.append(("illegal-configuration", f"{sorted(conf)}"))
    q = d.quiescent_ok()
    if q:
        bad.append(("not-quiescent", q))
    return bad


def harness_for(engine: str, variant: str) -> Harness:
    h = Harness({"id": "x", "states": {}}, with_plugin=True, threads=True, budget=5000)
    spec = make(engine, variant, h.rec)
    h.cfg = spec["cfg"]
    h._kw["services"] = spec["services"]
    h._kw["extra_actions"] = spec["actions"]
    h._kw["extra_guards"] = spec["guards"]
    return h


def scripts(maxlen: int, engine: str) -> List[List[tuple]]:
    out: List[List[tuple]] = [[]]
    grid = GRID if engine == "async" else (0.0,)
    for n in range(1, maxlen + 1):
        for seq in itertools.product(OPS, repeat=n):
            for times in itertools.combinations_with_replacement(grid, n):
                out.append([(t, op, {"n": i + 1}) for i, (t, op) in enumerate(zip(times, seq))])
    return out


def run_one(engine: str, variant: str, script, prefix=None):
    results = []

    def run(ch: Choices):
        h = harness_for(engine, variant)
        d = (run_async if engine == "async" else run_sync)(h, script, ch, horizon=HORIZON)
        try:
            log = list(h.rec.log)
            sent = [(it[1], it[2]["n"]) for it in script]
            bad = judge(variant, engine, sent, log, d)
            if engine == "async":
                errs = [c for c in d.loop.errors if "exception" in c and not isinstance(c["exception"], asyncio.CancelledError)]
                if errs:
                    bad.append(("unhandled-task-exception", repr(errs[0].get("exception"))))
            order = tuple((e[1], e[2]) for e in log if e[0] == "EV")
            return dict(key=(order, d.observe()[0]), bad=bad, order=order)
        finally:
            d.close()

    if prefix is not None:
        return [(prefix, run(Choices(prefix)))]

    def on_exec(ch, out):
        results.append((list(ch.taken), out))

    n, capped = explore(run, on_exec=on_exec, max_execs=3000)
    return results, n, capped


# ------------------------------------------------------------------ events accepted between from_snapshot() and start()
RESUME_OPS = [("send", ["E"]), ("send", ["F"]), ("batch", ["E", "F"]), ("batch", ["F", "E"])]


def resume_cfg() -> Dict[str, Any]:
    both = {"F": {"actions": ["mk:f"]}}
    return {"id": "m", "initial": "a", "context": {},
            "states": {"a": {"on": dict(both, E={"target": "b", "actions": ["mk:e"]})},
                       "b": {"on": dict(both, E={"target": "a", "actions": ["mk:e"]})}}}


def run_resume(engine: str) -> Dict[str, Any]:
    """A restored interpreter reports status running and accepts send() / send_events() at once; the async engine attaches its
    run loop in start().  Every sequence of <=2 operations placed between from_snapshot() and start() (after 0-2 events
    before the snapshot, followed by one more event after start): everything accepted is processed once, in order."""
    from xstate_statemachine import Interpreter, SyncInterpreter
    from ..drivers import AsyncDriver, SyncDriver

    res = dict(states=0, transitions=0, executions=0, evaluations=0, distinct=[], violations=[], samples=[], caps=[])
    for pre in (0, 1, 2):
        for n_ops in (0, 1, 2):
            for seq in itertools.product(RESUME_OPS, repeat=n_ops):
                h = Harness(resume_cfg(), with_plugin=True, threads=(engine == "sync"), extra_markers=["mk:e", "mk:f"])
                d = h.driver(engine)
                try:
                    d.start()
                    for _ in range(pre):
                        d.send("E", n=0)
                    snap = d.interp.get_snapshot()
                finally:
                    d.close()
                h2 = Harness(resume_cfg(), with_plugin=True, threads=(engine == "sync"), extra_markers=["mk:e", "mk:f"])
                if engine == "sync":
                    r = SyncDriver(h2, interp=h2._attach(SyncInterpreter.from_snapshot(snap, h2.machine())))
                else:
                    r = AsyncDriver(h2, interp=None)
                    with r.loop.active():
                        r.interp = h2._attach(Interpreter.from_snapshot(snap, h2.machine()))
                try:
                    accepted: List[Tuple[str, int]] = []
                    k = 0
                    for how, types in seq:
                        evs = []
                        for t in types:
                            k += 1
                            evs.append({"type": t, "n": k})
                            accepted.append((t, k))
                        if how == "send":
                            r.send(evs[0]["type"], n=evs[0]["n"])
                        else:
                            r.send_batch(evs)
                    if engine == "async":
                        r.start()
                    k += 1
                    r.send("E", n=k)
                    accepted.append(("E", k))
                    r.settle()
                    processed = [(e[1], e[2]) for e in h2.rec.log if e[0] == "EV"]
                    res["executions"] += 1
                    res["evaluations"] += 1
                    res["distinct"].append(hash((engine, pre, repr(seq))))
                    if processed != accepted:
                        lost = [a for a in accepted if a not in processed]
                        clause = "event-lost" if lost else "order-or-duplication"
                        res["violations"].append(dict(
                            signature=f"C04|{clause}|{engine}|accepted-between-from_snapshot-and-start", clause=clause,
                            what=f"{engine}: restored interpreter (snapshot after {pre} events) accepted {accepted} "
                                 f"({[h_ for h_, _ in seq]} before start()) but processed {processed}",
                            size=len(seq), replay=dict(engine="resume", which=engine)))
                finally:
                    r.close()
    res["samples"].append(dict(kind="resume", engine=engine, cases=res["executions"]))
    return res


def run_hook_send(engine: str) -> Dict[str, Any]:
    """Events sent from a plugin's on_interpreter_start hook: the status already says running, so they are accepted - they
    must be processed once, in order, after the initial entry (never against the still empty configuration)."""
    import asyncio as _asyncio

    from xstate_statemachine import PluginBase

    res = dict(states=0, transitions=0, executions=0, evaluations=0, distinct=[], violations=[], samples=[], caps=[])
    cfg = {"id": "m", "initial": "a",
           "states": {"a": {"entry": ["mk:en_a"], "on": {"E": {"target": "b", "actions": ["mk:e"]}, "F": {"actions": ["mk:f"]}}},
                      "b": {"entry": ["mk:en_b"], "on": {"E": {"target": "a", "actions": ["mk:e"]}, "F": {"actions": ["mk:f"]}}}}}
    for seq in ([("send", ["E"])], [("send", ["F"]), ("send", ["E"])], [("batch", ["E", "F"])], [("send", ["E"]), ("batch", ["F", "E"])]):
        h = Harness(cfg, with_plugin=True, threads=(engine == "sync"), extra_markers=["mk:e", "mk:f", "mk:en_a", "mk:en_b"])
        d = h.driver(engine)
        accepted: List[Tuple[str, int]] = []

        class Hook(PluginBase):
            def on_interpreter_start(self, interp):
                k = 0
                for how, types in seq:
                    evs = []
                    for t in types:
                        k += 1
                        evs.append({"type": t, "n": k})
                        accepted.append((t, k))
                    if engine == "sync":
                        interp.send(evs[0]["type"], n=evs[0]["n"]) if how == "send" else interp.send_events(evs)
                    else:
                        coro = interp.send(evs[0]["type"], n=evs[0]["n"]) if how == "send" else interp.send_events(evs)
                        _asyncio.ensure_future(coro)

        try:
            if engine == "async":
                with d.loop.active():
                    d.interp.use(Hook())
            else:
                d.interp.use(Hook())
            d.start()
            d.settle()
            log = list(h.rec.log)
            processed = [(e[1], e[2]) for e in log if e[0] == "EV" and e[1] in ("E", "F")]
            first_entry = next((i for i, e in enumerate(log) if e[0] == "A" and e[1] == "mk:en_a"), None)
            first_ev = next((i for i, e in enumerate(log) if e[0] == "EV" and e[1] in ("E", "F")), None)
            res["executions"] += 1
            res["evaluations"] += 1
            res["distinct"].append(hash((engine, repr(seq))))
            handled = [e[1] for e in log if e[0] == "A" and e[1] in ("mk:e", "mk:f")]
            probs = []
            if processed != accepted:
                probs.append(("event-lost" if len(processed) < len(accepted) else "order-or-duplication", f"accepted {accepted} processed {processed}"))
            elif len(handled) != len(accepted):
                probs.append(("event-lost", f"accepted {accepted}, all received, but only {handled} were handled: some met a configuration in which nothing handles them"))
            if first_ev is not None and (first_entry is None or first_ev < first_entry):
                probs.append(("processed-before-initial-entry", f"log {[e[:2] for e in log[:6]]}"))
            for clause, detail in probs:
                res["violations"].append(dict(
                    signature=f"C04|{clause}|{engine}|sent-from-on_interpreter_start", clause=clause,
                    what=f"{engine}: {clause}: {detail}; hook operations {seq}", size=len(seq),
                    replay=dict(engine="hook-send", which=engine)))
        finally:
            d.close()
    res["samples"].append(dict(kind="hook-send", engine=engine, cases=res["executions"]))
    return res


VARIANTS = ("plain", "start-raise", "start-send", "start-go", "start-always", "start-always-raise")


PREEMPT = {
    # variant -> preemption bound (quick, thorough)
    "caller+timer": (2, 3),
    "caller2+timer": (1, 2),
    "two-callers": (2, 2),
    "two-callers+timer": (1, 2),
    "raiser+caller": (1, 2),
    "leaver+timer": (1, 2),
    "burst-during-drain": (1, 2),
}


def units(tier: str) -> List[Any]:
    us = []
    from . import c04_preempt as P
    from ..preempt import split

    core.install_logging()
    for variant, (bq, bt) in PREEMPT.items():
        b = bq if tier == "quick" else bt
        for root in split(P, variant, b):
            us.append(("preempt", variant, (b, root)))
    for M in (2, 3):
        us.append(("burst", M, 3 * M))
    for engine in ENGINES:
        us.append(("resume", engine, None))
        us.append(("hook-send", engine, None))
    for engine in ENGINES:
        maxlen = (3 if tier == "quick" else 4) if engine == "sync" else (2 if tier == "quick" else 3)
        sc = scripts(maxlen, engine)
        for variant in VARIANTS:
            ss = sc if variant == "plain" else [s for s in sc if len(s) <= 2]
            size = 80 if engine == "sync" else 40
            for i in range(0, len(ss), size):
                us.append((engine, variant, ss[i:i + size]))
    return us


def run_unit(unit):
    if unit[0] == "burst":
        # more outside events than maxIterations arrive while an async action of the current macrostep is suspended (the
        # case itself lives in C13's BURST family; here it is judged as C04's "no volume of external sends loses an event")
        from . import c13

        r = c13.run_unit(("burst", "during-suspended-action", unit[1], unit[2], None))
        for v in r["violations"]:
            v["signature"] = "C04|event-lost|async|burst-during-suspended-action"
            v["replay"] = dict(engine="burst", M=unit[1], B=unit[2])
        r["distinct"] = [hash(("burst", unit[1], unit[2]))]
        r.pop("distinct_count", None)
        return r
    if unit[0] == "resume":
        return run_resume(unit[1])
    if unit[0] == "hook-send":
        return run_hook_send(unit[1])
    engine, variant, batch = unit
    res = dict(states=0, transitions=0, executions=0, evaluations=0, distinct=[], violations=[], samples=[], caps=[])
    if engine == "preempt":
        from . import c04_preempt as P
        from ..preempt import unit_result

        bound, root = batch
        return unit_result("C04", P, variant, bound,
                           lambda v: f"threads {sorted(P.VARIANTS[v]['producers'])}{' + after-timer' if P.VARIANTS[v]['timer'] else ''}", root=root)
    for script in batch:
        try:
            results, n, capped = run_one(engine, variant, script)
        except Budget as b:
            res["violations"].append(dict(signature=f"C04|does-not-terminate|{engine}|{variant}", clause="does-not-terminate",
                                          what=f"{engine}: run exceeded its action budget: {b}; variant {variant} script {script}", size=len(script),
                                          replay=dict(engine=engine, variant=variant, script=script, schedule=[])))
            continue
        res["executions"] += n
        res["evaluations"] += n
        if capped:
            res["caps"].append("max_execs per script")
        for taken, out in results:
            res["distinct"].append(hash((engine, variant, repr(script), tuple(taken), out["order"])))
            for clause, detail in out["bad"]:
                res["violations"].append(dict(
                    signature=f"C04|{clause}|{engine}|{variant}", clause=clause,
                    what=f"{engine}: {clause}: {detail}; variant {variant} script {script} schedule {taken}",
                    size=len(script) * 10 + len(taken),
                    replay=dict(engine=engine, variant=variant, script=script, schedule=taken)))
    if batch:
        res["samples"].append(dict(engine=engine, variant=variant, script=batch[-1], executions=res["executions"]))
    return res


def replay(payload):
    if payload["engine"] == "burst":
        r = run_unit(("burst", payload["M"], payload["B"]))
        for v in r["violations"]:
            print("  ", v["what"][:300])
        return r["violations"]
    if payload["engine"] in ("resume", "hook-send"):
        r = (run_resume if payload["engine"] == "resume" else run_hook_send)(payload["which"])
        for v in r["violations"][:5]:
            print("  ", v["what"][:300])
        return r["violations"]
    if payload["engine"] == "preempt":
        from . import c04_preempt as P

        out = P.run(payload["variant"], Choices(payload["schedule"]), payload["bound"])
        print("  processing order:", out["order"], "schedule:", out["schedule"])
        for clause, detail in out["bad"]:
            print("  ", clause, detail)
        return [dict(signature=f"C04|{c}|sync-threads", what=d) for c, d in out["bad"]]
    script = [tuple(x) for x in payload["script"]]
    out = run_one(payload["engine"], payload["variant"], script, prefix=payload["schedule"])
    vs = []
    for taken, o in out:
        print("  reception order:", o["order"])
        for clause, detail in o["bad"]:
            vs.append(dict(signature=f"C04|{clause}", what=detail))
            print("  ", clause, detail)
    return vs
