"""C11 — history states restore the last active sub-configuration.

E1 to closure over HIST machines (every TREE(N) tree containing a history node,
with and without a declared default target), both engines.  A reference memory
last_exit[P] is maintained from the exit markers; every transition that targets
a history child of an inactive parent P is compared with the reference
restoration, and re-run on a snapshot-restored twin.
"""
from __future__ import annotations

from typing import Any, Dict, List, Optional, Set

from xstate_statemachine import Interpreter, SyncInterpreter

from .. import families as F
from ..drivers import AsyncDriver, Harness, SyncDriver
from ..e1 import bfs, build

LEVEL = "model_checking"
RULE = (
    "every TREE(N) tree with a history node (with and without default targets) as a universal machine; BFS to "
    "closure per engine where the canonical state additionally carries the reference memory; a case is one "
    "history transition taken from a state whose history parent is inactive; compared: resulting configuration "
    "under the parent vs reference (shallow: remembered child + default descent; deep: remembered leaves; never "
    "exited: default target / normal entry), one entry marker per restored state, normal entry of the other regions of every parallel ancestor the transition enters, and agreement of a "
    "snapshot-restored twin; distinct_nontrivial = distinct (machine, engine, state, history event) cases"
)
BOUNDS = {
    "quick": "irregular larger trees holding a history node + TREE(N<=5) trees with a history node under a non-root parent x {no default, default=last sibling (plain key; for trees with a history owner outside the initial configuration also leading-dot and #absolute spellings)} x {sync, async}",
    "thorough": "TREE(N<=6) trees with a history node under a non-root parent x {no default, default=last sibling} x {sync, async}; "
                "plus structured skeletons C(X(H,s1,s2),A) with X in {C,P}, H in {Hs,Hd}, s1,s2 from a subtree menu (quick: reduced menu) and C(P(owner,sibling),A) with the history owner a region next to a deeper region",
}
ASSUMPTIONS = [
    "only transitions taken while the history state's parent is inactive are judged (the property leaves the "
    "other case unspecified); those remain subject to C01",
]
ENGINES = ("sync", "async")


def units(tier: str) -> List[Any]:
    n = 5 if tier == "quick" else 6
    out = []
    for t in F.big_skeletons(tier):
        if any(k in ("Hs", "Hd") for k in F.tree_kinds(t)):
            out.append((t, False))
    for t in F.trees_upto(n):
        # only a history node under a NON-root parent can be targeted while its parent is inactive
        nodes = F.flatten(t)
        if any(x.is_history and x.parent.parent is not None for x in nodes):
            out.append((t, False))
            out.append((t, True))
            if F.tree_size(t) <= 6 and any(x.is_history and x.parent not in F.default_entry(nodes[0]) for x in nodes):
                # (the default only matters while the owner was never exited: owners outside the initial configuration)
                # the default target respelled: leading-dot relative (looked up from the history node) and absolute
                out.append((t, "dot"))
                out.append((t, "abs"))
    for t in F.hist_skeletons(tier):
        out.append((t, False))
        out.append((t, "dot"))
        # the same tree with keys that are unique among siblings only: every region has children named 'a', 'b', ...
        out.append((t, False, "local"))
    return out


def build_cfg(tree, with_default, naming: str = "prefix"):
    cfg, nodes, events = F.universal_config(tree, reenter_all=False, naming=naming)
    defaults: Dict[str, str] = {}
    if with_default:
        for n in nodes:
            if n.is_history:
                sibs = [c for c in n.parent.children if not c.is_history]
                defaults[n.id] = sibs[-1].id
                F.cfg_node(cfg, n)["target"] = {"dot": "." + sibs[-1].key, "abs": "#" + sibs[-1].id}.get(with_default, sibs[-1].key)
    return cfg, nodes, events, defaults


def expected_under(byid, P: F.N, h: F.N, mem: Optional[frozenset], defaults) -> Set[str]:
    """Reference: active states inside subtree(P) after restoring via h."""
    if mem is None:
        if h.id in defaults:
            tgt = byid[defaults[h.id]]
            out = {P.id}
            out.update(x.id for x in F.default_entry(tgt))
            if P.kind == "P":
                for c in P.children:
                    if not c.is_history and c is not tgt:
                        out.update(x.id for x in F.default_entry(c))
            return out
        return {x.id for x in F.default_entry(P)}
    if h.kind == "Hd":
        return set(mem) | {P.id}
    out = {P.id}
    for c in P.children:
        if c.id in mem:
            out.update(x.id for x in F.default_entry(c))
    return out


def run_unit(unit):
    tree, with_default = unit[:2]
    naming = unit[2] if len(unit) > 2 else "prefix"
    cfg, nodes, events, defaults = build_cfg(tree, with_default, naming)
    byid = {n.id: n for n in nodes}
    label = F.tree_str(tree) + ("" if not with_default else "+defaults" if with_default is True else f"+defaults[{with_default}-spelling]") + ("" if naming == "prefix" else f" (keys {naming})")
    res = dict(states=0, transitions=0, executions=0, distinct=[], violations=[], samples=[], caps=[])
    hist_parents = sorted({n.parent.id for n in nodes if n.is_history})
    judged = 0
    for engine in ENGINES:
        h = Harness(cfg, with_plugin=True)
        h2 = Harness(cfg, with_plugin=True)
        viol = []
        # reference memory per canonical state, threaded along histories
        memo: Dict[Any, Dict[str, frozenset]] = {}

        def mem_after(hist) -> Dict[str, frozenset]:
            """Recomputes the reference memory by replaying hist on a scratch driver."""
            key = tuple(hist)
            if key in memo:
                return memo[key]
            if not hist:
                memo[key] = {}
                return memo[key]
            prev = dict(mem_after(hist[:-1]))
            d, _ = build(h2, engine, hist[:-1])
            try:
                before = set(d.observe()[0])
                mark = d.rec.mark()
                d.send(hist[-1])
                for e in d.rec.since(mark):
                    if e[0] == "A" and e[1].startswith("ex:"):
                        sid = e[1][3:]
                        if sid in hist_parents:
                            P = byid[sid]
                            prev[sid] = frozenset(x.id for x in P.descendants() if x.id in before)
            finally:
                d.close()
            memo[key] = prev
            return prev

        def canon(d):
            return d.observe()

        def flag(clause, detail, hist, ev):
            e = events[ev]
            t = byid[e["tgt"]]
            sig = f"C11|{clause}|hist={t.kind}|parent={t.parent.kind}|default={'y' if t.id in defaults else 'n'}"
            viol.append(dict(signature=sig, clause=clause,
                             what=f"{engine}: {clause}: {detail}; after {hist + [ev]} on {label}",
                             size=len(hist) + len(nodes) * 10,
                             replay=dict(tree=tree, with_default=with_default, naming=naming, engine=engine, hist=hist + [ev])))

        def on_state(d, hist):
            return F.legal_configuration(byid, d.observe()[0]) is None

        def on_step(d, hist, ev, mark, key_before):
            nonlocal judged
            e = events[ev]
            if not e.get("tgt"):
                return True
            t = byid[e["tgt"]]
            if not t.is_history:
                return True
            P = t.parent
            before = set(key_before[0])
            if P.id in before:
                return True  # unspecified by the property
            judged += 1
            res["distinct"].append((label, engine, key_before[0], key_before[1], ev))
            mem = mem_after(hist).get(P.id)
            want = expected_under(byid, P, t, mem, defaults)
            after = set(d.observe()[0])
            got = {s for s in after if s == P.id or s.startswith(P.id + ".")}
            if got != want:
                flag("restored-configuration", f"reference memory {sorted(mem) if mem is not None else None}: expected {sorted(want)} got {sorted(got)}", hist, ev)
            ens = [x[1][3:] for x in d.rec.since(mark) if x[0] == "A" and x[1].startswith("en:")]
            inside = [s for s in ens if s == P.id or s.startswith(P.id + ".")]
            if sorted(inside) != sorted(want):
                flag("restored-state-entered-once", f"entry markers {inside} vs restored states {sorted(want)}", hist, ev)
            # what the transition enters OUTSIDE the history parent is not the history's business: a parallel ancestor
            # entered by this transition enters its other regions normally (their default descent)
            if F.legal_configuration(byid, after) is None:
                child, Q = P, P.parent
                while Q is not None:
                    if Q.kind == "P" and Q.id in ens:
                        for R in Q.children:
                            if R is child or R.is_history:
                                continue
                            got_r = {s_ for s_ in after if s_ == R.id or s_.startswith(R.id + ".")}
                            want_r = {x.id for x in F.default_entry(R)}
                            if got_r != want_r:
                                flag("sibling-region-not-normally-entered", f"region {R.id} of {Q.id} (entered by this transition, not under the history parent {P.id}): expected its normal entry {sorted(want_r)} got {sorted(got_r)}", hist, ev)
                    child, Q = Q, Q.parent
            # snapshot-restored twin
            d1, _ = build(h2, engine, hist)
            try:
                snap = d1.interp.get_snapshot()
            finally:
                d1.close()
            if engine == "sync":
                twin = SyncDriver(h2, interp=h2._attach(SyncInterpreter.from_snapshot(snap, h2.machine())))
            else:
                twin = AsyncDriver(h2)
                with twin.loop.active():
                    twin.interp = h2._attach(Interpreter.from_snapshot(snap, h2.machine()))
                twin.start()
            try:
                twin.send(ev)
                t_after = set(twin.observe()[0])
                if t_after != after:
                    flag("snapshot-twin-differs", f"original {sorted(after)} restored twin {sorted(t_after)}", hist, ev)
            finally:
                twin.close()
            res["executions"] += 2
            return True

        def menu(d):
            o = d.observe()
            if o[2] != "running":
                return []
            conf = set(o[0])
            return [n for n, e in events.items() if e["src"] in conf and e["kind"] == "T"]

        cl = bfs(h, engine, menu, on_state, on_step, canon=canon)
        res["states"] += cl.states
        res["transitions"] += cl.transitions
        res["executions"] += cl.executions
        res["violations"].extend(viol)
    res["counters"] = {"history_transitions_judged": judged}
    res["samples"].append(dict(machine=label, states_total=res["states"], history_transitions_judged=judged))
    return res


def replay(payload):
    from .c01 import _tuplify

    res = run_unit((_tuplify(payload["tree"]), payload["with_default"], payload.get("naming", "prefix")))
    out = [v for v in res["violations"] if v["replay"]["hist"] == payload["hist"] and v["replay"]["engine"] == payload["engine"]]
    for v in out:
        print("  ", v["what"])
    return out
