"""C01 — the active configuration is always a legal statechart configuration.

E1 to closure over every universal machine of TREE(N) (one event per
source/target pair) and every FOLLOW machine, on sync, async and pure engines.
Invariant evaluated after start(), after each send(), on to_states + live
configuration inside every on_transition hook, inside every subscriber
callback, on get_persisted_snapshot()['configuration'] and on
PureSnapshot.configuration.
"""
from __future__ import annotations

from typing import Any, Dict, List

from .. import families as F
from ..core import Budget
from ..drivers import Harness
from ..e1 import bfs
from . import follow

LEVEL = "model_checking"
RULE = (
    "every ordered state tree with <=N non-root nodes over {atomic, final, shallow/deep history, "
    "compound, parallel} is decorated into a universal machine (one event per source x target pair, "
    "reenter and targetless variants) and explored by BFS to closure on each engine; plus the FOLLOW "
    "family (always / raise / onDone follow-ups); a case is one (machine, engine, canonical state) "
    "and distinct_nontrivial counts distinct canonical states (configuration, history memory, "
    "status, context) summed over (machine, engine)"
)
BOUNDS = {
    "quick": "TREE(N<=4): 1139 machines + 9 parallel skeletons C(P(s1,s2),A) + 56 history skeletons C(X(H,s1,s2),A) / C(P(owner,sibling),A) + 4 irregular larger trees (10-16 states) x 3 engines, closure per machine; FOLLOW(N<=3)",
    "thorough": "TREE(N<=5): 8086 machines + 54 parallel skeletons + 132 history skeletons + 10 irregular larger trees x 3 engines, closure per machine; FOLLOW(N<=4)",
}
ASSUMPTIONS = [
    "canonical state = (configuration, history memory, status, context, output, error flag, actors); "
    "two histories with equal canonical state have equal futures (tested by C12's one-step agreement)",
    "machines outside the TREE/FOLLOW grammars (more than N non-root states) are not covered",
]
ENGINES = ("sync", "async", "pure")


def units(tier: str) -> List[Any]:
    n = 4 if tier == "quick" else 5
    us: List[Any] = [("tree", t) for t in F.big_skeletons(tier)]   # the large units first
    us += [("tree", t) for t in F.trees_upto(n)]
    us += [("tree", t) for t in F.par_skeletons(tier)]
    us += [("tree", t) for t in F.hist_skeletons(tier)]
    # keys unique among siblings only (every region has children 'a', 'b', ...): parallel and history skeletons again
    us += [("tree-local", t) for t in F.par_skeletons(tier) + F.hist_skeletons(tier)]
    us += [("follow", spec) for spec in follow.specs(3 if tier == "quick" else 4)]
    return us


def relation(nodes: Dict[str, F.N], src: str, tgt: str) -> str:
    s, t = nodes[src], nodes[tgt]
    if s is t:
        return "self"
    if t in s.ancestors():
        return "tgt-ancestor-of-src"
    if t.is_history and t.parent is s:
        return "tgt-own-history-child"
    if s in t.ancestors():
        return "tgt-descendant-of-src"
    if t.parent is not None and (t.parent is s or t.parent in s.ancestors()):
        return "src-inside-tgt-parent"
    return "outside"


def explore_universal(tree, engines=ENGINES, collect=None, naming: str = "prefix") -> Dict[str, Any]:
    cfg, nodes, events = F.universal_config(tree, shared=True, naming=naming)
    return explore_generic(
        cfg, nodes, events, label=F.tree_str(tree) + ("" if naming == "prefix" else f" (keys {naming})"),
        replay=dict(kind="tree", tree=tree, naming=naming), engines=engines, collect=collect,
    )


def explore_generic(
    cfg, nodes, events, *, label, replay, engines=ENGINES, collect=None,
    shape_prefix="", guard_impls=None,
) -> Dict[str, Any]:
    byid = {n.id: n for n in nodes}
    res = dict(states=0, transitions=0, executions=0, distinct_count=0, violations=[], samples=[], caps=[])
    for engine in engines:
        h = Harness(cfg, with_plugin=True, with_subscriber=True, extra_guards=guard_impls, yielding=(engine == "async"))
        viol: List[Dict[str, Any]] = []

        def flag(clause, obs, hist, ev, conf, engine=engine):
            if ev is not None and ev in events:
                e = events[ev]
                tk = byid[e["tgt"]].kind if e["tgt"] else "-"
                tp = byid[e["tgt"]].parent.kind if e["tgt"] and byid[e["tgt"]].parent else "-"
                rel = relation(byid, e["src"], e["tgt"]) if e["tgt"] else "targetless"
                shape = f"kind={e['kind']}|tgt={tk}|tgtparent={tp}|rel={rel}"
            else:
                shape = "start"
            sig = f"C01|{clause}|{shape_prefix}{shape}"
            rp = dict(replay)
            rp.update(engine=engine, hist=hist + ([ev] if ev else []))
            viol.append(
                dict(
                    signature=sig,
                    clause=clause,
                    what=f"{engine}: illegal configuration {list(conf)} ({clause}) at {obs} after "
                    f"{hist + ([ev] if ev else [])} on {label}"
                    + (f"; event {ev}: {events[ev]}" if ev in events else ""),
                    size=len(hist) + len(nodes) * 10,
                    replay=rp,
                )
            )

        def conf_of(d):
            return d.observe()[0]

        def on_state(d, hist):
            conf = conf_of(d)
            bad = F.legal_configuration(byid, conf)
            if bad:
                flag(bad, "quiescence", hist[:-1], hist[-1] if hist else None, conf)
                return False
            if engine != "pure":
                sconf = d.interp.get_persisted_snapshot()["configuration"]
                bad = F.legal_configuration(byid, sconf)
                if bad or tuple(sconf) != tuple(conf):
                    flag(bad or "snapshot-differs", "snapshot", hist[:-1], hist[-1] if hist else None, sconf)
                    return False
                q = d.quiescent_ok()
                if q:
                    raise AssertionError(f"not quiescent: {q} on {label} after {hist}")
            return True

        def scan(d, hist, ev, mark):
            ok = True
            for entry in d.rec.since(mark):
                if entry[0] == "TR":
                    for which, conf in (("on_transition.to_states", entry[4]), ("on_transition.live", entry[5])):
                        bad = F.legal_configuration(byid, conf)
                        if bad:
                            flag(bad, which, hist, ev, conf)
                            ok = False
                elif entry[0] == "SUB":
                    bad = F.legal_configuration(byid, entry[1])
                    if bad:
                        flag(bad, "subscriber", hist, ev, entry[1])
                        ok = False
            return ok

        def on_step(d, hist, ev, mark, key_before):
            return scan(d, hist, ev, mark)

        def menu(d):
            conf = set(conf_of(d))
            status = d.observe()[2]
            if status not in ("running", "active"):
                return []
            return [
                name for name, e in events.items()
                if e["src"] in conf and e["kind"] in ("T", "R", "N", "S")
            ]

        # start-up observations
        d0 = h.driver(engine)
        try:
            err = d0.start()
            if err is not None:
                raise AssertionError(f"machine {label} failed to start: {err!r}")
            scan(d0, [], None, 0)
        except Budget:
            pass
        finally:
            d0.close()

        cl = bfs(h, engine, menu, on_state, on_step)
        res["states"] += cl.states
        res["transitions"] += cl.transitions
        res["executions"] += cl.executions + 1
        res["distinct_count"] += cl.states
        if cl.capped:
            res["caps"].append("max_states")
        if cl.nonterminating:
            # a step that never returns is C13's subject; C01 judges what it can observe
            res.setdefault("counters", {})["steps_over_action_budget_skipped"] = (
                res.get("counters", {}).get("steps_over_action_budget_skipped", 0) + len(cl.nonterminating)
            )
        res["violations"].extend(viol)
        if collect is not None:
            collect[engine] = cl
    res["samples"].append(
        dict(machine=label, events=len(events), states_total=res["states"], transitions_total=res["transitions"])
    )
    return res


def run_unit(unit) -> Dict[str, Any]:
    kind, payload = unit
    if kind == "tree":
        return explore_universal(payload)
    if kind == "tree-local":
        return explore_universal(payload, naming="local")
    return follow.explore_c01(payload)


def replay_generic(cfg, nodes, payload, guard_impls=None) -> List[Dict[str, Any]]:
    byid = {n.id: n for n in nodes}
    h = Harness(cfg, with_plugin=True, with_subscriber=True, extra_guards=guard_impls, yielding=(payload["engine"] == "async"))
    d = h.driver(payload["engine"])
    d.start()
    out = []
    print(f"  after start: {list(d.observe()[0])}")
    for i, ev in enumerate(payload["hist"]):
        d.send(ev)
        conf = d.observe()[0]
        print(f"  after {ev}: {list(conf)}")
        bad = F.legal_configuration(byid, conf)
        if bad and not out:
            out.append(dict(signature=f"C01|{bad}", what=f"illegal configuration {list(conf)} after {payload['hist'][:i+1]}"))
    for entry in d.rec.log:
        confs = []
        if entry[0] == "TR":
            confs = [entry[4], entry[5]]
        elif entry[0] == "SUB":
            confs = [entry[1]]
        for c in confs:
            bad = F.legal_configuration(byid, c)
            if bad and not out:
                out.append(dict(signature=f"C01|{bad}", what=f"illegal configuration {list(c)} inside {entry[0]} callback"))
    d.close()
    return out


def replay(payload) -> List[Dict[str, Any]]:
    if payload["kind"] == "tree":
        tree = _tuplify(payload["tree"])
        cfg, nodes, events = F.universal_config(tree, shared=True, naming=payload.get("naming", "prefix"))
        return replay_generic(cfg, nodes, payload)
    return follow.replay_c01(payload)


def _tuplify(x):
    if isinstance(x, list):
        return tuple(_tuplify(i) for i in x)
    return x
