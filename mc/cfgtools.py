"""Shared tools for the config-level properties (C17, C18, C19):

* CORPUS: base machine configs, one per construct of the config language;
* an independent deep fingerprint of a MachineNode;
* product-BFS trace equivalence of two machines under the Recorder logic bound by name.
"""
from __future__ import annotations

import collections
import copy
import json
from typing import Any, Callable, Dict, List, Optional, Set, Tuple

from xstate_statemachine import MachineLogic, SyncInterpreter, create_machine
from xstate_statemachine.actions import BUILTIN_ACTION_ALIASES
from xstate_statemachine.exceptions import XStateMachineError


# --------------------------------------------------------------------------- corpus
def corpus() -> Dict[str, Dict[str, Any]]:
    c: Dict[str, Dict[str, Any]] = {}
    c["flat"] = {
        "id": "flat", "initial": "a", "context": {"n": 0},
        "states": {
            "a": {"entry": "enterA", "exit": ["exitA"], "on": {"GO": "b", "STAY": {"actions": "note"}, "SELF": {"target": "a", "reenter": True}}},
            "b": {"entry": [{"type": "enterB"}], "on": {"BACK": {"target": "a", "actions": ["note", {"type": "note2", "params": {"k": 1}}]}}},
        },
    }
    c["guards"] = {
        "id": "guards", "initial": "a",
        "states": {
            "a": {"on": {"GO": [{"target": "b", "guard": "isOk"}, {"target": "c", "cond": "isAlt"}, {"target": "d"}],
                         "P": {"target": "b", "guard": {"type": "isParam", "params": {"min": 3}}},
                         "Q": {"target": "c", "guard": {"type": "and", "children": ["isOk", {"type": "not", "children": ["isAlt"]}]}},
                         "R": {"target": "d", "guard": {"type": "stateIn", "params": {"state": "#guards.a"}}}}},
            "b": {"on": {"BACK": "a"}}, "c": {"on": {"BACK": "a"}}, "d": {"on": {"BACK": "a"}},
        },
    }
    c["nested"] = {
        "id": "nested", "initial": "p",
        "states": {
            "p": {"initial": "p1", "entry": ["enterP"], "exit": ["exitP"],
                  "states": {"p1": {"on": {"N": "p2", "UP": "#nested.q", "REL": ".p2"}},
                             "p2": {"id": "deepTwo", "on": {"N": "p1", "OUT": "#nested.q.q1"}}},
                  "on": {"Q": "q"}},
            "q": {"initial": "q1", "states": {"q1": {"on": {"J": "#deepTwo", "K": "#nested.p.p1"}}, "q2": {}}, "on": {"P": "p", "P2": "p.p2"}},
        },
    }
    c["parallel"] = {
        "id": "par", "type": "parallel",
        "states": {
            "r1": {"initial": "x", "states": {"x": {"on": {"E": "y"}}, "y": {"on": {"E": "x"}}}},
            "r2": {"initial": "u", "states": {"u": {"on": {"E": "v", "F": "v"}}, "v": {"on": {"F": "u"}}}},
        },
        "on": {"RESET": {"actions": ["note"]}},
    }
    c["history"] = {
        "id": "hist", "initial": "w",
        "states": {
            "w": {"initial": "s1", "states": {"s1": {"on": {"N": "s2"}}, "s2": {"on": {"N": "s3"}}, "s3": {},
                                              "h": {"type": "history", "history": "shallow"}, "hd": {"type": "history", "history": "deep", "target": "s2"}},
                  "on": {"PAUSE": "paused"}},
            "paused": {"on": {"RESUME": "w.h", "DEEP": "#hist.w.hd"}},
        },
    }
    c["final"] = {
        "id": "fin", "initial": "work", "output": {"done": True},
        "states": {
            "work": {"initial": "a", "states": {"a": {"on": {"F": "z"}}, "z": {"type": "final", "output": {"r": 1}}},
                     "onDone": {"target": "end", "actions": ["workDone"]}},
            "end": {"type": "final"},
        },
    }
    c["timers"] = {
        "id": "tim", "initial": "a",
        "states": {
            "a": {"after": {"100": "b", "250": {"target": "c", "actions": ["late"]}}, "on": {"X": "c"}},
            "b": {"after": {"SHORT": {"target": "a"}}},
            "c": {"on": {"X": "a"}},
        },
    }
    c["always"] = {
        "id": "alw", "initial": "a", "context": {"ok": True},
        "states": {
            "a": {"on": {"GO": "b"}},
            "b": {"always": [{"target": "c", "guard": "isOk"}, {"target": "d"}]},
            "c": {"on": {"": {"target": "a", "guard": "never"}, "BACK": "a"}},
            "d": {"on": {"BACK": "a"}},
        },
    }
    c["invoke"] = {
        "id": "inv", "initial": "idle",
        "states": {
            "idle": {"on": {"LOAD": "loading"}},
            "loading": {"invoke": {"id": "loader", "src": "fetchData", "input": {"q": 1},
                                   "onDone": {"target": "ok", "actions": ["store"]}, "onError": [{"target": "failed", "actions": "logErr"}]},
                        "on": {"CANCEL": "idle"}},
            "ok": {"on": {"LOAD": "loading"}}, "failed": {"tags": ["error"], "meta": {"retry": True}, "on": {"LOAD": "loading"}},
        },
    }
    c["meta"] = {
        "id": "meta", "initial": "a", "context": {"x": 1},
        "states": {
            "a": {"tags": "idle", "meta": {"view": "A"}, "description": "first", "on": {"E": "b", "NULL": None}},
            "b": {"tags": ["busy", "x"], "on": {"E": "a", "*": {"actions": ["any"]}, "x.*": {"actions": ["xs"]}}},
        },
        "on": {"NULL": {"actions": ["rootNull"]}},
    }
    return c


def corpus_logic(cfg: Dict[str, Any], rec_log: List[tuple], guard_val: bool = True) -> MachineLogic:
    """Recorder-like logic bound by name: every referenced action is a marker,
    every guard returns guard_val, every service returns 'r'."""
    acts, guards, services, delays = referenced_names(cfg)

    def mk(name):
        def f(interp, ctx, ev, ad):
            rec_log.append(("A", name, getattr(ev, "type", None), json.dumps(ad.params, sort_keys=True, default=repr) if ad.params is not None else None))

        return f

    def g(name):
        def f(ctx, ev, params=None):
            rec_log.append(("G", name, json.dumps(params, sort_keys=True, default=repr) if params is not None else None))
            return guard_val

        return f

    def s(name):
        def f(interp, ctx, ev):
            rec_log.append(("S", name, json.dumps(getattr(ev, "payload", None), sort_keys=True, default=repr)))
            return "r"

        return f

    return MachineLogic(
        actions={n: mk(n) for n in acts}, guards={n: g(n) for n in guards},
        services={n: s(n) for n in services}, delays={n: 10 for n in delays},
    )


def referenced_names(cfg: Dict[str, Any]) -> Tuple[Set[str], Set[str], Set[str], Set[str]]:
    acts: Set[str] = set()
    guards: Set[str] = set()
    services: Set[str] = set()
    delays: Set[str] = set()

    def add_actions(v):
        if v is None:
            return
        for a in v if isinstance(v, list) else [v]:
            if isinstance(a, str):
                acts.add(a)
            elif isinstance(a, dict) and isinstance(a.get("type"), str):
                acts.add(a["type"])
                # built-in `choose`: its branches reference guards and actions of their own
                conds = (a.get("params") or {}).get("conditions") if isinstance(a.get("params"), dict) else None
                if a["type"] in ("xstate.choose", "choose") and isinstance(conds, list):
                    for br in conds:
                        if isinstance(br, dict):
                            add_guard(br.get("guard", br.get("cond")))
                            add_actions(br.get("actions"))

    def add_guard(gd):
        if gd is None:
            return
        if isinstance(gd, str):
            guards.add(gd)
        elif isinstance(gd, dict):
            t = gd.get("type")
            kids = gd.get("children") or []
            p = gd.get("params")
            if isinstance(p, dict):
                kids = kids or p.get("guards") or p.get("children") or ([p["guard"]] if "guard" in p else [])
            if t in ("and", "or", "not"):
                for k in kids if isinstance(kids, (list, tuple)) else []:
                    add_guard(k)
            elif t != "stateIn" and isinstance(t, str):
                guards.add(t)

    def add_tr(v):
        if v is None:
            return
        for t in v if isinstance(v, list) else [v]:
            if isinstance(t, dict):
                add_actions(t.get("actions"))
                add_guard(t.get("guard", t.get("cond")))

    def rec(st):
        if not isinstance(st, dict):
            return
        add_actions(st.get("entry"))
        add_actions(st.get("exit"))
        on = st.get("on")
        if isinstance(on, dict):
            for v in on.values():
                add_tr(v)
        add_tr(st.get("always"))
        add_tr(st.get("onDone"))
        af = st.get("after")
        if isinstance(af, dict):
            for k, v in af.items():
                add_tr(v)
                try:
                    int(k)
                except (TypeError, ValueError):
                    delays.add(str(k))
        inv = st.get("invoke")
        for i in inv if isinstance(inv, list) else ([inv] if inv else []):
            if isinstance(i, dict):
                if isinstance(i.get("src"), str):
                    services.add(i["src"])
                add_tr(i.get("onDone"))
                add_tr(i.get("onError"))
        sts = st.get("states")
        if isinstance(sts, dict):
            for c in sts.values():
                rec(c)

    rec(cfg)
    acts = {a for a in acts if a not in BUILTIN_ACTION_ALIASES and not a.startswith("spawn_")}
    return acts, guards, services, delays


def events_of(cfg: Dict[str, Any]) -> List[str]:
    out: List[str] = []

    def rec(st):
        if not isinstance(st, dict):
            return
        on = st.get("on")
        if isinstance(on, dict):
            for k in on:
                if k not in out and k != "":
                    out.append(k)
        sts = st.get("states")
        if isinstance(sts, dict):
            for c in sts.values():
                rec(c)

    rec(cfg)
    concrete = []
    for k in out:
        if k == "*":
            concrete.append("anything")
        elif k.endswith(".*"):
            concrete.append(k[:-2] + ".z")
        else:
            concrete.append(k)
    return concrete


# --------------------------------------------------------------------------- fingerprint
def guard_fp(g) -> Any:
    if g is None:
        return None
    return (g.type, json.dumps(g.params, sort_keys=True, default=repr) if not callable(g.params) else "<callable>",
            tuple(guard_fp(c) for c in g.children))


def _canon_action_cfg(x) -> Any:
    """Canonical form of an action as written in a config (string / object / list spellings)."""
    items = x if isinstance(x, list) else ([] if x is None else [x])
    return [({"type": a} if isinstance(a, str) else a) for a in items]


def action_fp(a) -> Any:
    params = a.params
    if a.type in ("xstate.choose", "choose") and isinstance(params, dict) and isinstance(params.get("conditions"), list):
        # the branches keep the spelling they were written in; compare them modulo the documented equivalent spellings
        from xstate_statemachine.models import GuardDefinition

        def gfp(g):
            try:
                return guard_fp(GuardDefinition(g)) if g is not None else None
            except Exception:  # noqa: BLE001
                return repr(g)

        params = dict(params, conditions=[
            {"guard": gfp(br.get("guard", br.get("cond"))), "actions": _canon_action_cfg(br.get("actions"))} if isinstance(br, dict) else br
            for br in params["conditions"]])
    return (a.type, json.dumps(params, sort_keys=True, default=repr) if params is not None else None)


def fingerprint(machine, resolve: Optional[Callable] = None, custom_ids: bool = True) -> Any:
    """Deep structural fingerprint; transition targets are compared as RESOLVED state ids."""
    from xstate_statemachine.resolver import resolve_target_state

    def tgt(t):
        if not t.target_str:
            return None
        for ref in (t.source, t.source.parent, machine):
            if ref is None:
                continue
            try:
                return resolve_target_state(t.target_str, ref).id
            except Exception:
                continue
        return f"<unresolved:{t.target_str}>"

    def tr(t):
        return (tgt(t), guard_fp(t.guard_def), tuple(action_fp(a) for a in t.actions), bool(t.reenter), bool(t.forbidden))

    def node(n):
        hist_default = None
        if n.type == "history" and n.target_str:
            try:
                hist_default = resolve_target_state(n.target_str, n).id
            except Exception:
                hist_default = f"<unresolved:{n.target_str}>"
        return (
            n.id, n.type, n.initial, n.history, hist_default,
            tuple(action_fp(a) for a in n.entry), tuple(action_fp(a) for a in n.exit),
            tuple(sorted((k, tuple(tr(t) for t in v)) for k, v in n.on.items())),
            tr(n.on_done) if n.on_done else None,
            tuple(sorted((str(k), tuple(tr(t) for t in v)) for k, v in n.after.items())),
            tuple((i.id, i.src, json.dumps(i.input, sort_keys=True, default=repr), tuple(tr(t) for t in i.on_done), tuple(tr(t) for t in i.on_error)) for i in n.invoke),
            tuple(sorted(n.tags)), json.dumps(n.meta, sort_keys=True, default=repr), json.dumps(n.output, sort_keys=True, default=repr),
            getattr(n, "custom_id", None) if custom_ids else None,
            tuple(node(c) for c in n.states.values()),
        )

    return (node(machine), json.dumps(machine.initial_context, sort_keys=True, default=repr) if not callable(machine.initial_context) else "<callable>",
            machine.max_iterations, json.dumps(machine.machine_output, sort_keys=True, default=repr))


# --------------------------------------------------------------------------- trace equivalence
def run_trace(cfg: Dict[str, Any], events: List[str], depth: int, guard_val: bool = True, build: Optional[Callable] = None,
              max_states: int = 400) -> Tuple[Any, Optional[str]]:
    """BFS over event sequences on the sync engine (timers inert, services inline);
    returns ({history: (configuration, status, context, step log)}, error-class-name)."""
    out: Dict[tuple, Any] = {}
    seen = set()
    frontier = collections.deque([()])

    def start(hist):
        # the thread shim keeps after-timers and delayed sends inert (virtual threads that never run)
        from .threads import Installed

        log: List[tuple] = []
        inst = Installed()
        inst.__enter__()
        try:
            m = build(log) if build else create_machine(copy.deepcopy(cfg), logic=corpus_logic(cfg, log, guard_val))
            i = SyncInterpreter(m)
            i._verif_inst = inst  # type: ignore[attr-defined]
            i.start()
            for ev in hist:
                i.send(ev)
        except BaseException:
            inst.__exit__(None, None, None)
            raise
        return i, log

    while frontier:
        hist = frontier.popleft()
        i, log = start(hist)
        key = (tuple(sorted(s.id for s in i._active_state_nodes)), i.status, json.dumps(i.context, sort_keys=True, default=repr),
               tuple(sorted((k, tuple(sorted(n.id for n in v))) for k, v in i._history.items())))
        out[hist] = (key[0], key[1], key[2], tuple(log))
        _stop(i)
        if key in seen or len(hist) >= depth or len(seen) >= max_states:
            continue
        seen.add(key)
        for ev in events:
            frontier.append(hist + (ev,))
    return out, None


def _stop(i) -> None:
    try:
        i.stop()
    except Exception:
        pass
    inst = getattr(i, "_verif_inst", None)
    if inst is not None:
        inst.__exit__(None, None, None)


def equivalent(cfg_a, cfg_b, depth: int = 4, build_a=None, build_b=None) -> Optional[str]:
    """None if trace-equivalent (under all-true and all-false guards), else a description."""
    events = events_of(cfg_a)
    for ev in events_of(cfg_b):
        if ev not in events:
            events.append(ev)
    for gv in (True, False):
        ta, _ = run_trace(cfg_a, events, depth, gv, build=(lambda log: build_a(log, gv)) if build_a else None)
        tb, _ = run_trace(cfg_b, events, depth, gv, build=(lambda log: build_b(log, gv)) if build_b else None)
        for hist in sorted(set(ta) | set(tb), key=lambda h: (len(h), h)):
            if ta.get(hist) != tb.get(hist):
                return f"guards={gv} after {list(hist)}: {ta.get(hist)} vs {tb.get(hist)}"
    return None
