"""E3p — preemption-bounded interleaving exploration of the sync engine at line granularity.

All producers (callers, timer threads) are virtual threads of `threads.Sched`; the
driver thread only schedules.  A step runs one thread up to its next scheduling
point: a blocking point (Event.wait, sleep, lock, thread end) or the next source
line of a whitelisted library function (sys.settrace 'line' events).  Switching
away from a thread that stopped at a line - i.e. is still enabled - costs one
preemption; choosing a thread after the running one blocked or ended is free.
`explore` enumerates every schedule with at most `bound` preemptions.
"""
from __future__ import annotations

from typing import Any, Callable, List, Optional

from . import e2
from .threads import Sched, VThread


def drive(sched: Sched, ch: e2.Choices, bound: int, max_steps: int = 4000) -> dict:
    """Runs the virtual threads of `sched` to quiescence under the choices of `ch`."""
    last: Optional[VThread] = None
    used = 0
    steps = 0
    schedule: List[str] = []
    while True:
        # default order = virtual-time order (a thread whose wait ends earlier comes first), so the default schedule
        # is fair in time; every other order is still explored as a deviation
        en = sorted(sched.enabled(), key=lambda t: (t.deadline if (t.deadline is not None and t.state in ("blocked", "sleeping")
                                                                  and not (t.wait_event is not None and t.wait_event._flag)) else sched.now, t.seq))
        if not en:
            break
        if steps >= max_steps:
            return dict(capped=True, steps=steps, preemptions=used, schedule=schedule)
        if last is not None and last.state == "runnable" and last in en:
            opts = [last] + [t for t in en if t is not last]
            if used < bound and len(opts) > 1:
                k = ch.pick(len(opts), f"preempt@{last.name}:{last.point}")
                if k:
                    used += 1
            else:
                k = 0
        else:
            opts = en
            k = ch.pick(len(opts), "free")
        nxt = opts[k]
        schedule.append(f"{nxt.name}@{nxt.point[1] if nxt.point else nxt.state}")
        sched.run(nxt)
        last = nxt
        steps += 1
    return dict(capped=False, steps=steps, preemptions=used, schedule=schedule)


def overlapping(frames: List[tuple], name: str) -> Optional[tuple]:
    """First pair of threads inside the watched function `name` at the same time, if any."""
    inside: List[str] = []
    for kind, th, fn in frames:
        if fn != name:
            continue
        if kind == "enter":
            if inside and th not in inside:
                return (inside[-1], th)
            inside.append(th)
        elif th in inside:
            inside.remove(th)
    return None


def split(module: Any, variant: str, bound: Any) -> List[Any]:
    """Work units covering module.explore(variant, bound): the default execution and one subtree per first deviation."""
    rs = e2.roots(lambda ch: module.run(variant, ch, bound))
    return [None] + rs


def unit_result(pid: str, module: Any, variant: str, bound: Any, describe: Callable[[str], str], root: Any = "all") -> dict:
    """Runs module.explore(variant, bound) - or, with `root`, one part of it (None: the default execution only; a
    prefix: the subtree below that first deviation) - and packs the outcome as a work-unit result of the runner."""
    import re

    res = dict(states=0, transitions=0, executions=0, evaluations=0, distinct=[], violations=[], samples=[], caps=[])
    if root == "all":
        results, n, capped = module.explore(variant, bound)
    elif root is None:
        out = module.run(variant, e2.Choices([]), bound)
        results, n, capped = [([], out)], 1, False
    else:
        results, n, capped = module.explore(variant, bound, root=list(root))
    res["executions"] += n
    res["evaluations"] += n
    if capped:
        res["caps"].append("max_execs per preemptive variant")
    outcomes = set()
    for taken, out in results:
        outcomes.add(out["key"])
        res["distinct"].append(hash(("preempt", variant, tuple(out["schedule"]))))
        for clause, detail in out["bad"]:
            res["violations"].append(dict(
                signature=f"{pid}|{clause}|sync-threads", clause=clause,
                what=f"sync engine, {describe(variant)}: {clause}: {detail}; {out['preemptions']} preemption(s), "
                     f"schedule {[re.sub(r'::[0-9a-f-]+', '', x) for x in out['schedule']]}",
                size=out["preemptions"] * 1000 + len(taken),
                replay=dict(engine="preempt", variant=variant, bound=bound, schedule=taken)))
    if root in ("all", None):
        res["samples"].append(dict(engine="sync-threads", variant=variant, preemption_bound=bound, schedules=n, distinct_outcomes=len(outcomes)))
    return res


def replay_unit(pid: str, module: Any, payload: dict) -> list:
    out = module.run(payload["variant"], e2.Choices(payload["schedule"]), payload["bound"])
    print("  observed order:", out["order"])
    for c, d in out["bad"]:
        print("  ", c, d)
    return [dict(signature=f"{pid}|{c}|sync-threads", what=d) for c, d in out["bad"]]
