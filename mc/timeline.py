"""Timeline runners: one execution of (machine, environment script, schedule choices)
on the async engine (VLoop) or the sync engine (thread shim).

Environment script: list of (t, op, payload) with non-decreasing virtual times.
Ops: an event type to send, or 'STOP'.  On the async engine the script runs as a
producer task (its own timers compete with the library's timers); on the sync
engine the driver thread performs the ops itself.

Choice points (asked from a `Choices` object):
  * which of several timers due at the same instant fires next;
  * whether the work made ready by a fired timer runs before the next tied
    timer fires (0 = run to idle first) - this is what puts an expiry
    notification *behind* already queued events;
  * sync: whether an op scheduled at a timer's deadline runs before it.
"""
from __future__ import annotations

import asyncio
from typing import Any, Callable, Dict, List, Optional, Tuple

from .drivers import Harness
from .e2 import Choices

EPS = 1e-9


def _tied(ts: list, key: Callable[[Any], float]) -> list:
    if not ts:
        return []
    t0 = key(ts[0])
    return [h for h in ts if abs(key(h) - t0) < EPS]


def run_async(h: Harness, script: List[tuple], ch: Choices, *, horizon: float = 2.0,
              before_start: Optional[Callable[[Any], None]] = None, max_iters: int = 5000):
    """Returns the driver (caller closes it)."""
    d = h.driver("async")
    loop = d.loop
    if before_start:
        before_start(d)
    d.start()
    interp = d.interp

    async def producer() -> None:
        now = 0.0
        for i, item in enumerate(script):
            t, op = item[0], item[1]
            payload = item[2] if len(item) > 2 else {}
            if t > now + EPS:
                await asyncio.sleep(t - now)
                now = t
            h.rec.log.append(("OP", op, loop.time()))
            if op == "STOP":
                await interp.stop()
                h.rec.log.append(("OPDONE", op, loop.time()))
            elif callable(op):
                r = op(d)
                if asyncio.iscoroutine(r):
                    await r
            else:
                await interp.send(op, **payload)

    with loop.active():
        loop.create_task(producer())
        loop.run_until_idle(max_iters)
        steps = 0
        while True:
            ts = [x for x in loop.live_timers() if x._when <= horizon + EPS]
            if not ts:
                break
            tied = _tied(ts, lambda x: x._when)
            while tied:
                k = ch.pick(len(tied), "which tied timer fires")
                hnd = tied.pop(k)
                loop.fire(hnd)
                if tied:
                    together = ch.pick(2, "fire next tied timer before running ready work")
                    if together == 0:
                        loop.run_until_idle(max_iters)
                        live = loop.live_timers()
                        tied = [x for x in tied if any(x is y for y in live)]
            loop.run_until_idle(max_iters)
            steps += 1
            if steps > 3000:
                raise RuntimeError("timeline horizon: more than 3000 timer rounds")
        if loop.time() < horizon:
            loop._vnow = horizon
    return d


def run_sync(h: Harness, script: List[tuple], ch: Choices, *, horizon: float = 2.0,
             before_start: Optional[Callable[[Any], None]] = None):
    d = h.driver("sync")
    sched = d.sched
    assert sched is not None, "Harness(threads=True) required"
    if before_start:
        before_start(d)
    d.start()

    def flush_cancelled() -> None:
        """Threads whose wait was satisfied by set() (the library only ever sets
        an Event to CANCEL a timer / delayed send) or that have not started yet
        do nothing observable when they wake: run them eagerly, no choice."""
        n = 0
        while True:
            woke = [x for x in sched.enabled()
                    if x.state == "blocked" and x.wait_event is not None and x.wait_event._flag]
            if not woke:
                break
            sched.run(woke[0])
            n += 1
            if n > 2000:
                raise RuntimeError("thread horizon exceeded (cancelled waiters)")

    def due(t) -> float:
        if t.state == "runnable":
            return sched.now
        return t.deadline

    def fire_until(limit: float, inclusive: bool) -> None:
        n = 0
        while True:
            flush_cancelled()
            en = [t for t in sched.enabled()
                  if (due(t) < limit - EPS) or (inclusive and due(t) <= limit + EPS)]
            if not en:
                break
            en.sort(key=lambda t: (due(t), t.seq))
            tied = _tied(en, due)
            k = ch.pick(len(tied), "which tied thread runs")
            sched.run(tied[k])
            n += 1
            if n > 2000:
                raise RuntimeError("thread horizon exceeded")

    def sync_sleep(dur: float) -> None:
        """A blocking action on the caller's thread: virtual time passes and the
        library's threads that become due run meanwhile (their sends are queued
        behind the event being processed)."""
        limit = sched.now + dur
        fire_until(limit, inclusive=True)
        if sched.now < limit:
            sched.now = limit
        sched.touch()

    h.sync_sleep = sync_sleep  # type: ignore[attr-defined]

    for item in script:
        t, op = item[0], item[1]
        payload = item[2] if len(item) > 2 else {}
        fire_until(t, inclusive=False)
        if t > sched.now:
            sched.now = t
        # threads due exactly at t: each one runs before the op (0) or after it (1)
        flush_cancelled()
        tied_now = [x for x in sched.enabled() if due(x) <= t + EPS]
        tied_now.sort(key=lambda x: x.seq)
        for x in tied_now:
            if x.state == "done":
                continue
            if ch.pick(2, "thread due at the op's instant runs after the op") == 0:
                sched.run(x)
                flush_cancelled()
        h.rec.log.append(("OP", op, sched.now))
        if op == "STOP":
            d.stop()
            h.rec.log.append(("OPDONE", op, sched.now))
        elif callable(op):
            op(d)
        else:
            d.send(op, **payload)
        sched.touch()
    fire_until(horizon, inclusive=True)
    if sched.now < horizon:
        sched.now = horizon
    return d
