"""Exhaustively generated machine families ("programs" quantifier).

A tree is a nested tuple (kind, (children...)) with kinds
    A atomic, F final, Hs shallow history, Hd deep history, C compound, P parallel.
Root is C or P.  Node ids: root 'm', other nodes get single-letter keys in
pre-order ('a','b',...) so every key is unique in the tree.
"""
from __future__ import annotations

import functools
import itertools
from typing import Any, Dict, Iterable, List, Optional, Tuple

Tree = Tuple[str, tuple]
LEAF_KINDS = ("A", "F", "Hs", "Hd")
KEYS = "abcdefghijklmnopqrstuvwxyz"


# --------------------------------------------------------------------------
# TREE(N): all ordered trees
# --------------------------------------------------------------------------
@functools.lru_cache(maxsize=None)
def _subtrees(n: int, parent: str) -> Tuple[Tree, ...]:
    """All trees with exactly n nodes (n>=1) allowed as a child of `parent`."""
    out: List[Tree] = []
    if n == 1:
        out.append(("A", ()))
        if parent == "C":
            out.append(("F", ()))
        out.append(("Hs", ()))
        out.append(("Hd", ()))
        return tuple(out)
    for kind in ("C", "P"):
        for forest in _forests(n - 1, kind):
            out.append((kind, forest))
    return tuple(out)


@functools.lru_cache(maxsize=None)
def _forests(n: int, parent: str) -> Tuple[tuple, ...]:
    """All ordered child lists with n nodes in total, valid under `parent`:
    at least one non-history child, at most one Hs and one Hd."""
    res: List[tuple] = []

    def rec(remaining: int, acc: tuple) -> None:
        if remaining == 0:
            kinds = [c[0] for c in acc]
            if not any(k not in ("Hs", "Hd") for k in kinds):
                return
            if kinds.count("Hs") > 1 or kinds.count("Hd") > 1:
                return
            res.append(acc)
            return
        for k in range(1, remaining + 1):
            for t in _subtrees(k, parent):
                rec(remaining - k, acc + (t,))

    rec(n, ())
    return tuple(res)


def trees_exact(n: int) -> List[Tree]:
    """All trees with exactly n non-root nodes."""
    out: List[Tree] = []
    for root in ("C", "P"):
        for forest in _forests(n, root):
            out.append((root, forest))
    return out


def trees_upto(n: int) -> List[Tree]:
    out: List[Tree] = []
    for k in range(1, n + 1):
        out.extend(trees_exact(k))
    return out


def tree_size(t: Tree) -> int:
    return 1 + sum(tree_size(c) for c in t[1])


def tree_kinds(t: Tree) -> List[str]:
    out = [t[0]]
    for c in t[1]:
        out.extend(tree_kinds(c))
    return out


def tree_str(t: Tree) -> str:
    if not t[1]:
        return t[0]
    return t[0] + "(" + ",".join(tree_str(c) for c in t[1]) + ")"


# --------------------------------------------------------------------------
# flattening: nodes with ids
# --------------------------------------------------------------------------
class N:
    __slots__ = ("idx", "kind", "key", "id", "parent", "children", "depth")

    def __init__(self, idx, kind, key, id_, parent, depth):
        self.idx = idx
        self.kind = kind
        self.key = key
        self.id = id_
        self.parent = parent
        self.children: List["N"] = []
        self.depth = depth

    @property
    def is_history(self) -> bool:
        return self.kind in ("Hs", "Hd")

    def ancestors(self) -> List["N"]:
        out, cur = [], self.parent
        while cur is not None:
            out.append(cur)
            cur = cur.parent
        return out

    def descendants(self) -> List["N"]:
        out: List["N"] = []
        for c in self.children:
            out.append(c)
            out.extend(c.descendants())
        return out

    def __repr__(self) -> str:
        return f"N({self.id}:{self.kind})"


def flatten(t: Tree, root_id: str = "m", naming: str = "prefix") -> List[N]:
    """naming='prefix' (default): keys 'a', 'ab', 'abc', ... in document order; naming='reversed': keys 'z', 'y', 'x', ...
    so that document order is the REVERSE of the lexicographic order of keys and ids (whatever sorts states by id instead
    of by document order shows); naming='local': keys are unique among siblings only, so states of different branches
    share their local name (whatever identifies a state by its key instead of its id shows)."""
    nodes: List[N] = []

    def rec(tt: Tree, parent: Optional[N], depth: int) -> N:
        idx = len(nodes)
        # adversarial naming: every key is a string prefix of all later keys
        # ('a', 'ab', 'abc', ...), so id-prefix tests that forget the '.' separator
        # confuse siblings with descendants
        if parent is None:
            key = root_id
        elif naming == "prefix":
            key = KEYS[:idx]
        elif naming == "reversed":
            key = KEYS[26 - idx]
        else:
            # 'local': unique among siblings only ('a', 'b', ... under EVERY parent) - the same local name in every region
            key = KEYS[len(parent.children)]
        id_ = key if parent is None else f"{parent.id}.{key}"
        n = N(idx, tt[0], key, id_, parent, depth)
        nodes.append(n)
        if parent is not None:
            parent.children.append(n)
        for c in tt[1]:
            rec(c, n, depth + 1)
        return n

    rec(t, None, 0)
    return nodes


# --------------------------------------------------------------------------
# config builder
# --------------------------------------------------------------------------
def skeleton_config(
    nodes: List[N],
    *,
    markers: bool = True,
    history_default: Optional[Dict[str, str]] = None,
) -> Dict[str, Any]:
    """Builds the bare state tree with entry/exit markers on every state."""

    def build(n: N) -> Dict[str, Any]:
        cfg: Dict[str, Any] = {}
        if n.kind == "F":
            cfg["type"] = "final"
        elif n.kind in ("Hs", "Hd"):
            cfg["type"] = "history"
            cfg["history"] = "shallow" if n.kind == "Hs" else "deep"
            if history_default and n.id in history_default:
                cfg["target"] = history_default[n.id]
        elif n.kind == "P":
            cfg["type"] = "parallel"
        if n.kind in ("C", "P"):
            cfg["states"] = {c.key: build(c) for c in n.children}
            if n.kind == "C":
                first = next(c for c in n.children if not c.is_history)
                cfg["initial"] = first.key
        if markers and not n.is_history:
            cfg["entry"] = [f"en:{n.id}"]
            cfg["exit"] = [f"ex:{n.id}"]
        return cfg

    root = nodes[0]
    cfg = build(root)
    cfg["id"] = root.key
    return cfg


def cfg_node(cfg: Dict[str, Any], node: N) -> Dict[str, Any]:
    """Returns the sub-config dict of `node` inside a skeleton config."""
    path = []
    cur = node
    while cur.parent is not None:
        path.append(cur.key)
        cur = cur.parent
    sub = cfg
    for k in reversed(path):
        sub = sub["states"][k]
    return sub


def universal_config(t: Tree, *, with_root_targets: bool = True, reenter_all: bool = True, shared: bool = False, naming: str = "prefix", root_id: str = "m") -> Tuple[Dict[str, Any], List[N], Dict[str, Dict[str, Any]]]:
    """Universal machine: one event per (source, target) pair.

    Events: 'T<i>_<j>' source i -> target j (absolute '#id' target),
            'R<i>' self transition with reenter, 'N<i>' targetless.
    Every transition carries a marker action 'tr:<event>'.
    Returns (config, nodes, events) with events[name] = {src, tgt, kind}.
    """
    nodes = flatten(t, root_id=root_id, naming=naming)
    cfg = skeleton_config(nodes)
    events: Dict[str, Dict[str, Any]] = {}
    for s in nodes:
        if s.is_history:
            continue
        on: Dict[str, Any] = {}
        for tnode in nodes:
            if tnode.idx == 0 and not with_root_targets:
                continue
            name = f"T{s.idx}_{tnode.idx}"
            on[name] = {"target": f"#{tnode.id}", "actions": [f"tr:{name}"]}
            events[name] = {"src": s.id, "tgt": tnode.id, "kind": "T"}
        name = f"R{s.idx}"
        on[name] = {"target": f"#{s.id}", "reenter": True, "actions": [f"tr:{name}"]}
        events[name] = {"src": s.id, "tgt": s.id, "kind": "R"}
        if reenter_all:
            # the reenter flag on every non-self target as well
            for tnode in nodes:
                if tnode is s or (tnode.idx == 0 and not with_root_targets):
                    continue
                name = f"X{s.idx}_{tnode.idx}"
                on[name] = {"target": f"#{tnode.id}", "reenter": True, "actions": [f"tr:{name}"]}
                events[name] = {"src": s.id, "tgt": tnode.id, "kind": "T", "reenter": True}
        name = f"N{s.idx}"
        on[name] = {"actions": [f"tr:{name}"]}
        events[name] = {"src": s.id, "tgt": None, "kind": "N"}
        if shared and s.idx != 0 and any(n.kind == "P" for n in nodes):
            # 'S<j>': ONE event handled by every state, each sending the machine to target j - in a parallel configuration
            # the same event selects a transition in every region, and an earlier winner may exit a later one's source
            for tnode in nodes:
                name = f"S{tnode.idx}"
                on[name] = {"target": f"#{tnode.id}", "actions": [f"tr:{name}@{s.idx}"]}
                events.setdefault(name, {"src": nodes[0].id, "tgt": tnode.id, "kind": "S"})
            # 'U<k>': one event, but source i goes to node (i+k) mod N - regions answer the same event with DIFFERENT
            # targets (one may leave the parallel state while another moves inside its region)
            for k in range(1, len(nodes)):
                tnode = nodes[(s.idx + k) % len(nodes)]
                name = f"U{k}"
                on[name] = {"target": f"#{tnode.id}", "actions": [f"tr:{name}@{s.idx}"]}
                events.setdefault(name, {"src": nodes[0].id, "tgt": None, "kind": "S"})
        cfg_node(cfg, s)["on"] = on
    return cfg, nodes, events


# --------------------------------------------------------------------------
# reference semantics helpers on N trees (independent of the library)
# --------------------------------------------------------------------------
def legal_configuration(nodes_by_id: Dict[str, N], config: Iterable[str]) -> Optional[str]:
    """Returns None if legal, else the name of the violated clause."""
    conf = set(config)
    root = next(n for n in nodes_by_id.values() if n.parent is None)
    if root.id not in conf:
        return "root-inactive"
    for sid in sorted(conf):
        n = nodes_by_id.get(sid)
        if n is None:
            return f"unknown-state"
        if n.is_history:
            return "history-active"
        if n.parent is not None and n.parent.id not in conf:
            return "orphan(parent-inactive)"
    for sid in sorted(conf):
        n = nodes_by_id[sid]
        if n.kind == "C":
            act = [c for c in n.children if c.id in conf]
            if len(act) == 0:
                return "compound-without-active-child"
            if len(act) > 1:
                return "compound-with-several-active-children"
        elif n.kind == "P":
            for c in n.children:
                if not c.is_history and c.id not in conf:
                    return "parallel-region-inactive"
    return None


def default_entry(n: N) -> List[N]:
    """States entered by the normal entry of n (n first, document order)."""
    out = [n]
    if n.kind == "C":
        first = next(c for c in n.children if not c.is_history)
        out.extend(default_entry(first))
    elif n.kind == "P":
        for c in n.children:
            if not c.is_history:
                out.extend(default_entry(c))
    return out


def hist_skeletons(tier: str = "quick") -> List[Tree]:
    """Structured larger trees around one history node: root C( X(H, s1, s2), A )
    with X in {C, P}, H in {Hs, Hd} and s1, s2 from a menu of small subtrees
    (atomic, final, compound with/without a final child, parallel).  They realise
    the parent-kind x child-kind x depth-3 combinations TREE(N<=5) cannot reach."""
    A_, F_ = ("A", ()), ("F", ())
    menu_p = [A_, ("C", (A_, A_)), ("C", (A_, F_)), ("C", (F_, A_)), ("P", (A_, A_))]
    menu_c = menu_p + [F_]
    if tier == "quick":
        menu_p = [A_, ("C", (A_, F_)), ("P", (A_, A_))]
        menu_c = menu_p + [F_]
    out: List[Tree] = []
    for xkind, menu in (("C", menu_c), ("P", menu_p)):
        for hk in ("Hs", "Hd"):
            for s1 in menu:
                for s2 in menu:
                    if xkind == "C" and s1 == F_ and s2 == F_:
                        continue
                    out.append(("C", ((xkind, ((hk, ()), s1, s2)), A_)))
    # the history owner is itself a REGION of a parallel state (or sits inside one) and a sibling region holds active
    # states at the owner's depth and deeper: what the owner remembers must be its own descendants only
    caa = ("C", (A_, A_))
    sibs = [caa, ("C", (A_, caa))]
    for hk in ("Hs", "Hd"):
        owner = ("C", ((hk, ()), A_, A_))
        for sib in sibs:
            out.append(("C", (("P", (owner, sib)), A_)))
            out.append(("C", (("P", (sib, owner)), A_)))
        if tier != "quick":
            out.append(("C", (("P", (("C", (owner,)), sibs[1])), A_)))
            out.append(("C", (("P", (sibs[1], ("C", (owner,)))), A_)))
    return out


def par_skeletons(tier: str = "quick") -> List[Tree]:
    """Structured larger trees around one parallel state with something outside it: root C( P(s1, s2[, s3]), A ), regions
    from a menu of small subtrees.  With the shared events of universal_config (one event answered by every region,
    each with its own target) they realise "one region leaves the parallel state while another moves inside its
    region", which needs 6-7 non-root nodes - beyond TREE(N<=5)."""
    A_, F_ = ("A", ()), ("F", ())
    menu = [A_, ("C", (A_, A_)), ("C", (A_, F_))]
    if tier != "quick":
        menu += [("C", (A_, ("C", (A_, A_)))), ("P", (A_, A_)), ("C", (("Hs", ()), A_, A_))]
    out: List[Tree] = []
    for s1 in menu:
        for s2 in menu:
            out.append(("C", (("P", (s1, s2)), A_)))
    if tier != "quick":
        for s1 in menu[:3]:
            for s2 in menu[:3]:
                for s3 in menu[:2]:
                    out.append(("C", (("P", (s1, s2, s3)), A_)))
    return out


def big_skeletons(tier: str = "quick") -> List[Tree]:
    """Larger, deliberately irregular trees (9-15 non-root nodes) mixing the features that the regular families hold one
    at a time: a parallel state inside a compound inside a parallel, three regions, 3-4 levels of nesting, history next
    to final states, two history owners in sibling regions, a root that is itself parallel."""
    A_, F_ = ("A", ()), ("F", ())
    caa, caf = ("C", (A_, A_)), ("C", (A_, F_))
    out: List[Tree] = [
        ("C", (("P", (("C", (("P", (A_, A_)), A_)), ("C", (("Hd", ()), A_, F_)))), A_)),
        ("C", (("P", (caa, caf, ("C", (("Hs", ()), A_, caa)))), A_)),
        ("C", (("C", (("Hd", ()), ("P", (caa, caf)), ("C", (A_, caa)))), A_)),
        ("P", (("C", (A_, ("C", (A_, F_)))), ("C", (("Hs", ()), A_, A_)), A_)),
    ]
    if tier != "quick":
        out += [
            ("C", (("P", (("P", (caa, A_)), ("C", (("Hd", ()), caa, A_)))), F_)),
            ("C", (("C", (("P", (caf, caf)), F_)), ("C", (("Hs", ()), A_, A_)))),
            ("C", (("P", (("C", (("Hd", ()), A_, caa)), ("C", (("Hd", ()), A_, A_)))), A_)),
            ("C", (("C", (("C", (caa, A_)), A_)), ("P", (A_, A_)))),
            ("C", (("P", (("C", (("Hs", ()), caf, A_)), ("C", (A_, ("P", (A_, A_)))))), A_)),
            ("P", (("C", (("Hd", ()), ("P", (A_, A_)), A_)), ("C", (A_, F_)))),
        ]
    return out


def done_skeletons(tier: str = "quick") -> List[Tree]:
    """Structured larger trees around completion through a nested parallel state: root C( X=C( P(s1, s2), F ), A ) -
    a compound state with an onDone of its own wraps a parallel state whose regions finish one at a time (6-9 non-root
    nodes, beyond TREE(N<=5)); thorough adds deeper regions, three regions and a parallel-in-parallel wrapper."""
    A_, F_ = ("A", ()), ("F", ())
    caf = ("C", (A_, F_))
    menu = [A_, F_, caf]
    out: List[Tree] = []
    for s1 in menu:
        for s2 in menu:
            out.append(("C", (("C", (("P", (s1, s2)), F_)), A_)))
    if tier != "quick":
        deep = [("C", (A_, ("C", (A_, F_)))), ("P", (caf, F_))]
        for s1 in menu + deep:
            for s2 in deep:
                out.append(("C", (("C", (("P", (s1, s2)), F_)), A_)))
        out.append(("C", (("C", (("P", (caf, caf, caf)), F_)), A_)))
        for s1 in menu:
            out.append(("C", (("P", (("P", (s1, caf)), caf)), A_)))
    return out


if __name__ == "__main__":
    for k in range(1, 7):
        print(k, len(trees_exact(k)))
