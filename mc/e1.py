"""E1 — explicit-state BFS over the real interpreter.

A state is the event history that reaches it.  `build(hist)` makes a fresh
interpreter and replays; successors are deduplicated by canonical state.
"""
from __future__ import annotations

import collections
from typing import Any, Callable, Dict, Iterable, List, Optional, Tuple

from .core import Budget
from .drivers import Harness


class Closure:
    def __init__(self) -> None:
        self.states = 0
        self.transitions = 0
        self.executions = 0
        self.max_depth = 0
        self.capped = False
        self.keys: set = set()
        self.nonterminating: List[Any] = []  # histories whose last step blew the budget


def build(h: Harness, engine: str, hist: List[Any], send=None):
    d = h.driver(engine)
    err = d.start()
    if err is None:
        for ev in hist:
            if send is not None:
                send(d, ev)
            elif isinstance(ev, tuple):
                d.send(ev[0], **ev[1])
            else:
                d.send(ev)
    return d, err


def bfs(
    h: Harness,
    engine: str,
    menu: Callable[[Any], Iterable[Any]],
    on_state: Callable[[Any, List[Any]], bool],
    on_step: Callable[[Any, List[Any], Any, int, tuple], bool],
    *,
    canon: Optional[Callable[[Any], Any]] = None,
    max_states: int = 100000,
    send: Optional[Callable[[Any, Any], Any]] = None,
) -> Closure:
    """Runs to closure.

    on_state(driver, hist) -> bool: evaluate state invariants; return False to
        stop expanding this state (e.g. it is already in violation).
    on_step(driver_after, hist, ev, mark, key_before) -> bool: evaluate the
        step oracle on the log since `mark`; False = do not enqueue successor.
    """
    canon = canon or (lambda d: d.observe())
    cl = Closure()
    try:
        d0, err = build(h, engine, [], send)
    except Budget:
        cl.nonterminating.append([])
        cl.states = 1
        return cl
    cl.executions += 1
    try:
        k0 = canon(d0)
        ok = on_state(d0, [])
    finally:
        d0.close()
    cl.keys.add(k0)
    cl.states = 1
    if not ok:
        return cl
    frontier = collections.deque([([], k0)])
    while frontier:
        hist, key = frontier.popleft()
        d, _ = build(h, engine, hist, send)
        cl.executions += 1
        try:
            events = list(menu(d))
        finally:
            d.close()
        for ev in events:
            d, _ = build(h, engine, hist, send)
            cl.executions += 1
            try:
                mark = d.rec.mark()
                try:
                    if send is not None:
                        send(d, ev)
                    elif isinstance(ev, tuple):
                        d.send(ev[0], **ev[1])
                    else:
                        d.send(ev)
                except Budget:
                    cl.nonterminating.append(hist + [ev])
                    cl.transitions += 1
                    continue
                cl.transitions += 1
                nhist = hist + [ev]
                cont = on_step(d, hist, ev, mark, key)
                k = canon(d)
                if k not in cl.keys:
                    cl.keys.add(k)
                    cl.states += 1
                    cl.max_depth = max(cl.max_depth, len(nhist))
                    if cont and on_state(d, nhist):
                        if cl.states >= max_states:
                            cl.capped = True
                        else:
                            frontier.append((nhist, k))
            finally:
                d.close()
    return cl
