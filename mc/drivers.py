"""Drivers exposing one interface over the three engines.

    d.start(); d.send(type, **payload); d.stop(); d.observe(); d.close()

`Harness` owns the machine definition + Recorder; drivers are cheap and are
rebuilt for every replayed history.
"""
from __future__ import annotations

import copy
import json
from typing import Any, Dict, List, Optional, Tuple

from xstate_statemachine import (
    Interpreter,
    SyncInterpreter,
    create_machine,
)
from xstate_statemachine import helpers as pure_api
from xstate_statemachine.events import Event

from .recorder import Recorder
from .vloop import VLoop


def jsonable(x: Any) -> Any:
    try:
        return json.loads(json.dumps(x, sort_keys=True, default=repr))
    except Exception:
        return repr(x)


def canon_interp(interp: Any, *, with_actors: bool = True) -> tuple:
    """Canonical quiescent state of an interpreter (sorted, ids only)."""
    actors = ()
    if with_actors:
        actors = tuple(
            sorted(
                (strip_uuid(aid), canon_interp(a))
                for aid, a in interp._actors.items()
            )
        )
    system = tuple(sorted((k, strip_uuid(v.id)) for k, v in interp._system.items()))
    return (
        tuple(sorted(n.id for n in interp._active_state_nodes)),
        tuple(
            sorted(
                (k, tuple(sorted(x.id for x in v)))
                for k, v in interp._history.items()
            )
        ),
        interp.status,
        json.dumps(jsonable(interp.context), sort_keys=True),
        json.dumps(jsonable(interp.output), sort_keys=True),
        interp.error is not None,
        actors,
        system,
    )


def strip_uuid(actor_id: str) -> str:
    """Generated id suffixes ('parent:key:<uuid>') are not part of the state."""
    parts = actor_id.split(":")
    out = []
    for p in parts:
        if len(p) == 36 and p.count("-") == 4:
            out.append("*")
        elif p.startswith("uuid#"):
            out.append("*")
        else:
            out.append(p)
    return ":".join(out)


class Harness:
    """Machine definition + recorder, shared by all drivers of one unit."""

    def __init__(
        self,
        cfg: Dict[str, Any],
        *,
        guards: Optional[List[str]] = None,
        services: Optional[Dict[str, Any]] = None,
        delays: Optional[Dict[str, Any]] = None,
        extra_actions: Optional[Dict[str, Any]] = None,
        extra_guards: Optional[Dict[str, Any]] = None,
        extra_markers: Optional[List[str]] = None,
        missing_actions: Optional[List[str]] = None,
        with_plugin: bool = True,
        with_subscriber: bool = False,
        fresh_machine: bool = False,
        budget: Optional[int] = 4000,
        threads: bool = False,
        yielding: bool = False,
        tick: float = 0.0,
    ) -> None:
        self.cfg = cfg
        self.rec = Recorder()
        self.rec.budget = budget
        self.rec.yielding = yielding
        if extra_markers:
            extra_actions = dict(extra_actions or {})
            for name in extra_markers:
                extra_actions[name] = self.rec.marker(name)
        self._kw = dict(
            guards=guards, services=services, delays=delays, extra_actions=extra_actions,
            extra_guards=extra_guards, missing_actions=missing_actions,
        )
        self.with_plugin = with_plugin
        self.with_subscriber = with_subscriber
        self.fresh_machine = fresh_machine
        self.threads = threads
        # with threads=True: virtual seconds that pass after every operation of the caller (start / send / batch), so that
        # polling helper threads (actor runners, 10 ms polls) get past their next poll before the caller's next operation
        self.tick = tick
        self._machine = None

    def machine(self):
        if self._machine is None or self.fresh_machine:
            self._machine = create_machine(
                copy.deepcopy(self.cfg), logic=self.rec.logic(self.cfg, **self._kw)
            )
        return self._machine

    def _attach(self, interp: Any) -> Any:
        if self.with_plugin:
            interp.use(self.rec.plugin())
        if self.with_subscriber:
            rec = self.rec

            def _sub(i: Any) -> None:
                rec.log.append(
                    ("SUB", tuple(sorted(s.id for s in i._active_state_nodes)), i.status)
                )
                if rec.fault is not None:
                    rec.fault("subscriber", "sub")

            interp.subscribe(_sub)
        return interp

    def sync(self) -> "SyncDriver":
        return SyncDriver(self)

    def asyn(self) -> "AsyncDriver":
        return AsyncDriver(self)

    def pure(self) -> "PureDriver":
        return PureDriver(self)

    def driver(self, engine: str):
        # one log per execution: the budget and `mark()` are per driver
        self.rec.log = []
        # generated ids (actor ids, timer keys) are owned by the harness: a fresh sequential generator per execution,
        # unless a check has installed a generator of its own
        install_uuid(None, only_if_default=True)
        from .core import LOG

        LOG.reset()
        return {"sync": self.sync, "async": self.asyn, "pure": self.pure}[engine]()


class UuidShim:
    """Stands in for the `uuid` module inside the two engines."""

    def __init__(self, gen=None) -> None:
        self.gen = gen or (lambda n: f"{n:08x}-0000-4000-8000-{n:012x}")
        self.n = 0
        self.default = gen is None

    def uuid4(self):
        self.n += 1
        return self.gen(self.n)


def install_uuid(gen=None, only_if_default: bool = False):
    """Replaces `uuid` in interpreter / sync_interpreter by a deterministic generator; returns the previous objects."""
    from xstate_statemachine import interpreter as ai, sync_interpreter as si

    prev = (ai.uuid, si.uuid)
    if only_if_default and isinstance(si.uuid, UuidShim) and not si.uuid.default:
        si.uuid.n = 0   # a check's own generator stays, restarted for the new execution
        return prev
    ai.uuid = si.uuid = UuidShim(gen)
    return prev


def restore_uuid(prev) -> None:
    from xstate_statemachine import interpreter as ai, sync_interpreter as si

    ai.uuid, si.uuid = prev


class SyncDriver:
    engine = "sync"

    def __init__(self, h: Harness, interp: Any = None) -> None:
        self.h = h
        self.rec = h.rec
        self._inst = None
        self.sched = None
        if h.threads:
            from .threads import Installed

            self._inst = Installed()
            self.sched = self._inst.__enter__()
            sched = self.sched
            h.rec.clock = lambda: sched.now
        self.interp = interp if interp is not None else h._attach(SyncInterpreter(h.machine()))
        self.raised: List[BaseException] = []

    # ---- virtual threads (only with Harness(threads=True)) -----------------
    def settle(self) -> None:
        """Runs threads that are runnable right now (no time passes)."""
        if self.sched is not None:
            self.sched.run_all(until=self.sched.now)

    def advance(self, dt: float) -> None:
        """Default schedule: let virtual time pass, firing timers in deadline order."""
        if self.sched is not None:
            self.sched.run_all(until=self.sched.now + dt)

    def now(self) -> float:
        return self.sched.now if self.sched is not None else 0.0

    def _touch(self) -> None:
        """After an operation on the caller's thread: polling sleepers look again and
        threads that are runnable right now (just spawned, or cancelled) get to run -
        the default schedule of a prompt OS; no virtual time passes."""
        if self.sched is not None:
            self.sched.touch()
            if self.sched.current is self.sched.main:
                self.sched.run_all(until=self.sched.now + self.h.tick)

    def start(self) -> Optional[BaseException]:
        try:
            self.interp.start()
            return None
        except Exception as exc:  # library errors are observations, not crashes
            self.raised.append(exc)
            return exc
        finally:
            self._touch()

    def send(self, etype: str, **payload: Any) -> Optional[BaseException]:
        try:
            self.interp.send(etype, **payload)
            return None
        except Exception as exc:
            self.raised.append(exc)
            return exc
        finally:
            self._touch()

    def send_obj(self, ev: Any) -> Optional[BaseException]:
        try:
            self.interp.send(ev)
            return None
        except Exception as exc:
            self.raised.append(exc)
            return exc

    def send_batch(self, events: List[Any]) -> Optional[BaseException]:
        try:
            self.interp.send_events(list(events))
            return None
        except Exception as exc:
            self.raised.append(exc)
            return exc
        finally:
            self._touch()

    def stop(self) -> Optional[BaseException]:
        try:
            self.interp.stop()
            return None
        except Exception as exc:
            self.raised.append(exc)
            return exc

    def can(self, etype: str) -> bool:
        return self.interp.can(etype)

    def observe(self) -> tuple:
        return canon_interp(self.interp)

    def quiescent_ok(self) -> Optional[str]:
        i = self.interp
        if i.status != "running":
            return None
        if i._is_processing:
            return "_is_processing still set"
        if i._event_queue:
            return f"{len(i._event_queue)} event(s) left in queue"
        if i._action_depth:
            return "_action_depth nonzero"
        return None

    def close(self) -> None:
        if self._inst is not None:
            inst, self._inst = self._inst, None
            inst.__exit__(None, None, None)


class AsyncDriver:
    engine = "async"

    def __init__(self, h: Harness, interp: Any = None, loop: Optional[VLoop] = None) -> None:
        self.h = h
        self.rec = h.rec
        self.loop = loop or VLoop()
        h.rec.clock = self.loop.time
        with self.loop.active():
            self.interp = interp if interp is not None else h._attach(Interpreter(h.machine()))
        self.raised: List[BaseException] = []
        self.max_iters = 20000

    def _call(self, coro: Any) -> Optional[BaseException]:
        with self.loop.active():
            task = self.loop.run_coro(coro, self.max_iters)
        if not task.done():
            # blocked on a timer/future: leave it pending, report as such
            return None
        if task.cancelled():
            return None
        exc = task.exception()
        if exc is not None:
            self.raised.append(exc)
        return exc

    def start(self) -> Optional[BaseException]:
        return self._call(self.interp.start())

    def send(self, etype: str, **payload: Any) -> Optional[BaseException]:
        return self._call(self.interp.send(etype, **payload))

    def send_obj(self, ev: Any) -> Optional[BaseException]:
        return self._call(self.interp.send(ev))

    def send_batch(self, events: List[Any]) -> Optional[BaseException]:
        return self._call(self.interp.send_events(list(events)))

    def stop(self) -> Optional[BaseException]:
        return self._call(self.interp.stop())

    def can(self, etype: str) -> bool:
        with self.loop.active():
            return self.interp.can(etype)

    def settle(self) -> None:
        with self.loop.active():
            self.loop.run_until_idle(self.max_iters)

    def advance(self, dt: float) -> None:
        with self.loop.active():
            self.loop.advance_to(self.loop.time() + dt, self.max_iters)

    def now(self) -> float:
        return self.loop.time()

    def observe(self) -> tuple:
        return canon_interp(self.interp)

    def quiescent_ok(self) -> Optional[str]:
        i = self.interp
        if i.status != "running":
            return None
        if i._processing:
            return "_processing still set"
        if not i._event_queue.empty():
            return f"{i._event_queue.qsize()} event(s) left in queue"
        if i._action_depth:
            return "_action_depth nonzero"
        return None

    def close(self) -> None:
        self.loop.shutdown()


class PureDriver:
    """Threads a PureSnapshot through the pure API."""

    engine = "pure"

    def __init__(self, h: Harness) -> None:
        self.h = h
        self.rec = h.rec
        self.machine = h.machine()
        self.snap = None
        self.reported: List[Any] = []
        self.raised: List[BaseException] = []

    def start(self) -> Optional[BaseException]:
        try:
            self.snap, acts = pure_api.initial_transition(self.machine)
            self.reported = list(acts)
            return None
        except Exception as exc:
            self.raised.append(exc)
            return exc

    def send(self, etype: str, **payload: Any) -> Optional[BaseException]:
        try:
            ev = Event(type=etype, payload=payload)
            self.snap, acts = pure_api.transition(self.machine, self.snap, ev)
            self.reported = list(acts)
            return None
        except Exception as exc:
            self.raised.append(exc)
            return exc

    def stop(self) -> None:
        return None

    def observe(self) -> tuple:
        s = self.snap
        return (
            tuple(sorted(s.configuration)),
            (),
            s.status,
            json.dumps(jsonable(s.context), sort_keys=True),
            json.dumps(jsonable(s.output), sort_keys=True),
            s.status == "error",
            (),
            (),
        )

    def quiescent_ok(self) -> Optional[str]:
        return None

    def close(self) -> None:
        pass
