"""Recorder logic + plugin: every user-visible callback appends to one log."""
from __future__ import annotations

from typing import Any, Callable, Dict, List, Optional, Set, Tuple

from xstate_statemachine import MachineLogic, PluginBase
from xstate_statemachine.actions import BUILTIN_ACTION_ALIASES
from xstate_statemachine.events import AfterEvent, DoneEvent, Event


def ev_key(event: Any) -> Tuple[str, Any]:
    """(type, payload-seq) identity of an event object."""
    t = getattr(event, "type", None)
    n = None
    if isinstance(event, Event):
        p = event.payload
        if isinstance(p, dict):
            n = p.get("n")
    return (t, n)


INIT_NAMES = ("___xstate_statemachine_init___",)


def norm_ev_type(t: Optional[str]) -> Optional[str]:
    """Start-up pseudo events are normalised to 'INIT' (neither name is documented)."""
    if t is None:
        return None
    if t in INIT_NAMES or t.startswith("entry."):
        return "INIT"
    return t


def conf_ids(interp: Any) -> Tuple[str, ...]:
    return tuple(sorted(s.id for s in interp._active_state_nodes))


def _walk_action_names(cfg: Any, out: Set[str]) -> None:
    """Collect action names from entry/exit/actions positions of a config."""

    def add_actions(v: Any) -> None:
        if v is None:
            return
        items = v if isinstance(v, list) else [v]
        for a in items:
            if isinstance(a, str):
                out.add(a)
            elif isinstance(a, dict):
                t = a.get("type")
                if isinstance(t, str):
                    out.add(t)
                # nested choose branches
                p = a.get("params")
                if isinstance(p, dict):
                    for br in p.get("conditions", []) or []:
                        if isinstance(br, dict):
                            add_actions(br.get("actions"))

    def add_transitions(v: Any) -> None:
        if v is None:
            return
        items = v if isinstance(v, list) else [v]
        for t in items:
            if isinstance(t, dict):
                add_actions(t.get("actions"))

    def rec(st: Dict[str, Any]) -> None:
        add_actions(st.get("entry"))
        add_actions(st.get("exit"))
        for v in (st.get("on") or {}).values():
            add_transitions(v)
        add_transitions(st.get("always"))
        add_transitions(st.get("onDone"))
        for v in (st.get("after") or {}).values():
            add_transitions(v)
        inv = st.get("invoke")
        for i in inv if isinstance(inv, list) else ([inv] if inv else []):
            if isinstance(i, dict):
                add_transitions(i.get("onDone"))
                add_transitions(i.get("onError"))
        for c in (st.get("states") or {}).values():
            if isinstance(c, dict):
                rec(c)

    rec(cfg)


def action_names(cfg: Dict[str, Any]) -> Set[str]:
    out: Set[str] = set()
    _walk_action_names(cfg, out)
    return {
        n
        for n in out
        if n not in BUILTIN_ACTION_ALIASES and not n.startswith("spawn_")
    }


class Recorder:
    """One shared log for markers, guards, services and plugin hooks."""

    def __init__(self) -> None:
        self.log: List[tuple] = []
        self.guard_vals: Dict[str, Any] = {}
        self.fault: Optional[Callable[[str, str], None]] = None  # (kind,name)->raise?
        self.with_conf = True
        self.budget: Optional[int] = None  # max log length before Budget is raised
        self.clock: Optional[Callable[[], float]] = None
        # async engine only: every marker action is a coroutine that logs and then yields to the event loop once, so
        # anything the engine wrongly runs concurrently (or lets the run loop do in between) gets the chance to interleave
        self.yielding = False

    # ---- user code stubs -------------------------------------------------
    def marker(self, name: str) -> Callable[..., None]:
        def _marker(interp: Any, ctx: Any, event: Any, action_def: Any) -> None:
            t, n = ev_key(event)
            self.log.append(
                ("A", name, t, n, conf_ids(interp) if self.with_conf else None,
                 self.clock() if self.clock is not None else None)
            )
            if self.budget is not None and len(self.log) > self.budget:
                from .core import Budget

                raise Budget(f"more than {self.budget} log entries")
            if self.fault is not None:
                self.fault("action", name)

        _marker.__name__ = "marker_" + name.replace(":", "_").replace(".", "_")
        if self.yielding:
            import asyncio

            async def _amarker(interp: Any, ctx: Any, event: Any, action_def: Any) -> None:
                _marker(interp, ctx, event, action_def)
                await asyncio.sleep(0)

            _amarker.__name__ = _marker.__name__
            return _amarker
        return _marker

    def guard(self, name: str) -> Callable[..., bool]:
        def _guard(ctx: Any, event: Any, params: Any = None) -> bool:
            val = self.guard_vals.get(name, True)
            self.log.append(("G", name, ev_key(event)[0], params, val))
            if self.fault is not None:
                self.fault("guard", name)
            if val == "raise":
                raise RuntimeError(f"guard {name} raises")
            return bool(val)

        return _guard

    def logic(
        self,
        cfg: Dict[str, Any],
        *,
        guards: Optional[List[str]] = None,
        services: Optional[Dict[str, Any]] = None,
        delays: Optional[Dict[str, Any]] = None,
        extra_actions: Optional[Dict[str, Any]] = None,
        extra_guards: Optional[Dict[str, Any]] = None,
        missing_actions: Optional[List[str]] = None,
    ) -> MachineLogic:
        actions: Dict[str, Any] = {n: self.marker(n) for n in action_names(cfg) if n not in (missing_actions or ())}
        if extra_actions:
            actions.update(extra_actions)
        g = {n: self.guard(n) for n in (guards or [])}
        if extra_guards:
            g.update(extra_guards)
        # `X or {}` inside MachineLogic: empty dicts are fine (get() -> None)
        return MachineLogic(
            actions=actions, guards=g, services=services or {}, delays=delays or {}
        )

    def plugin(self) -> "RecPlugin":
        return RecPlugin(self)

    def mark(self) -> int:
        return len(self.log)

    def since(self, k: int) -> List[tuple]:
        return self.log[k:]


HOOK_TAGS = ("EV", "TR", "AX", "GE", "AE", "SS", "SD", "SE", "DONE", "ERR", "START", "STOP")


class RecPlugin(PluginBase):
    def __init__(self, rec: Recorder) -> None:
        self.rec = rec

    def on_interpreter_start(self, interpreter: Any) -> None:
        self.rec.log.append(("START", interpreter.id))
        if self.rec.fault is not None:
            self.rec.fault("hook", "on_interpreter_start")

    def on_interpreter_stop(self, interpreter: Any) -> None:
        self.rec.log.append(("STOP", interpreter.id, self.rec.clock() if self.rec.clock is not None else None))
        if self.rec.fault is not None:
            self.rec.fault("hook", "on_interpreter_stop")

    def on_event_received(self, interpreter: Any, event: Any) -> None:
        t, n = ev_key(event)
        self.rec.log.append(("EV", t, n, interpreter.id))
        if self.rec.fault is not None:
            self.rec.fault("hook", "on_event_received")

    def on_transition(self, interpreter: Any, from_states: Any, to_states: Any, transition: Any) -> None:
        self.rec.log.append(
            (
                "TR",
                getattr(transition, "event", None),
                getattr(getattr(transition, "source", None), "id", None),
                tuple(sorted(s.id for s in from_states)),
                tuple(sorted(s.id for s in to_states)),
                conf_ids(interpreter),
            )
        )
        if self.rec.fault is not None:
            self.rec.fault("hook", "on_transition")

    def on_action_execute(self, interpreter: Any, action: Any) -> None:
        self.rec.log.append(("AX", action.type))
        if self.rec.fault is not None:
            self.rec.fault("hook", "on_action_execute")

    def on_action_error(self, interpreter: Any, action: Any, error: Any) -> None:
        self.rec.log.append(("AE", action.type, type(error).__name__))
        if self.rec.fault is not None:
            self.rec.fault("hook", "on_action_error")

    def on_guard_evaluated(self, interpreter: Any, guard_name: Any, event: Any, result: Any) -> None:
        self.rec.log.append(("GE", guard_name, result))
        if self.rec.fault is not None:
            self.rec.fault("hook", "on_guard_evaluated")

    def on_service_start(self, interpreter: Any, invocation: Any) -> None:
        self.rec.log.append(("SS", invocation.id))
        if self.rec.fault is not None:
            self.rec.fault("hook", "on_service_start")

    def on_service_done(self, interpreter: Any, invocation: Any, result: Any) -> None:
        self.rec.log.append(("SD", invocation.id, repr(result)))
        if self.rec.fault is not None:
            self.rec.fault("hook", "on_service_done")

    def on_service_error(self, interpreter: Any, invocation: Any, error: Any) -> None:
        self.rec.log.append(("SE", invocation.id, type(error).__name__))
        if self.rec.fault is not None:
            self.rec.fault("hook", "on_service_error")

    def on_done(self, interpreter: Any, output: Any) -> None:
        self.rec.log.append(("DONE", interpreter.id, repr(output)))
        if self.rec.fault is not None:
            self.rec.fault("hook", "on_done")

    def on_error(self, interpreter: Any, error: Any) -> None:
        self.rec.log.append(("ERR", interpreter.id, type(error).__name__))
        if self.rec.fault is not None:
            self.rec.fault("hook", "on_error")
