"""E3 — controlled scheduler for the thread-based sync engine.

`sync_interpreter.threading` / `.time` are replaced by shim objects.  Every
library thread becomes a *virtual thread*: a real OS thread that only runs while
it holds the baton (one semaphore per thread), so exactly one thread executes
at any time and every switch is decided by the driver.

Cooperative mode (this file): a switch can happen only at shim calls —
Thread.start, Event.wait, time.sleep, thread end.  The driver (main thread)
chooses which blocked thread proceeds (its wait timing out in virtual time or
its event having been set).

Preemptive mode (`preempt.py`, driver) adds line-level scheduling points through
sys.settrace on whitelisted library functions (`Sched.trace_codes`), and
`ShimLock` makes a contended lock acquisition a scheduling point.
"""
from __future__ import annotations

import threading as _real_threading
import time as _real_time
from typing import Any, Callable, List, Optional


class _Baton:
    """Binary hand-off primitive on a raw lock (one futex operation per hand-off;
    threading.Semaphore is a Python-level Condition and far slower under load)."""

    __slots__ = ("_lock",)

    def __init__(self) -> None:
        self._lock = _real_threading.Lock()
        self._lock.acquire()

    def release(self) -> None:
        self._lock.release()

    def acquire(self) -> None:
        self._lock.acquire()


class ThreadExit(BaseException):
    """Raised inside a virtual thread to unwind it at shutdown."""


class VThread:
    def __init__(self, sched: "Sched", target: Optional[Callable], name: str, is_main: bool = False):
        self.sched = sched
        self.target = target
        self.name = name
        self.is_main = is_main
        self.sem = _Baton()
        self.state = "running" if is_main else "new"  # new|runnable|blocked|sleeping|done|running
        self.wait_event: Optional["ShimEvent"] = None
        self.deadline: Optional[float] = None
        self.wake_reason: Optional[str] = None
        self.abort = False
        self.exc: Optional[BaseException] = None
        self.real: Optional[_real_threading.Thread] = None
        self.seq = 0
        # polling sleepers: woken only after something else changed ("dirty")
        self.dirty = False
        self.interval: Optional[float] = None
        # preemptive mode: parked at a line of a traced function / waiting for a shim lock
        self.point: Optional[tuple] = None
        self.wait_lock: Optional["ShimLock"] = None

    def __repr__(self) -> str:
        return f"VThread({self.name},{self.state},deadline={self.deadline})"


class Sched:
    """One scheduler per execution."""

    def __init__(self) -> None:
        self.now = 0.0
        self.main = VThread(self, None, "main", is_main=True)
        self.current = self.main
        self.threads: List[VThread] = []
        self._seq = 0
        self.trace: List[tuple] = []
        self.preempt_hook: Optional[Callable[[], None]] = None
        # preemptive mode (mc/preempt.py): code objects whose every line is a scheduling point, and code objects
        # whose entry/exit is logged (to see two threads inside the same function at once)
        self.trace_codes: set = set()
        self.watch_codes: set = set()
        # opt-in: entering a watched function is a scheduling point as well (the thread is parked INSIDE the frame, so an
        # overlap of two threads in that function becomes observable without tracing its every line)
        self.watch_preempt: bool = False
        self.frames: List[tuple] = []
        self.on_wake: Optional[Callable[[VThread, Optional[str]], None]] = None
        self.on_frame: Optional[Callable[[str, str, str], None]] = None

    # ---- baton ------------------------------------------------------------
    def _switch_to(self, vt: VThread) -> None:
        """Called by the current holder: hand the baton to vt and park."""
        me = self.current
        self.current = vt
        vt.sem.release()
        me.sem.acquire()
        # resumed
        self.current = me
        if me.abort and not me.is_main:
            raise ThreadExit()

    def _yield_to_main(self) -> None:
        """Called by a non-main virtual thread at a blocking point."""
        me = self.current
        assert not me.is_main
        self.current = self.main
        self.main.sem.release()
        me.sem.acquire()
        self.current = me
        if me.abort:
            raise ThreadExit()

    # ---- thread lifecycle ---------------------------------------------------
    def spawn(self, target: Callable, name: str) -> VThread:
        vt = VThread(self, target, name)
        self._seq += 1
        vt.seq = self._seq
        vt.state = "runnable"
        self.threads.append(vt)

        def boot() -> None:
            vt.sem.acquire()  # parked until first scheduled
            self.current = vt
            try:
                if not vt.abort:
                    vt.state = "running"
                    if self.trace_codes or self.watch_codes:
                        import sys

                        sys.settrace(self._tracer)
                    target()
            except ThreadExit:
                pass
            except BaseException as exc:  # pragma: no cover - reported by driver
                vt.exc = exc
            finally:
                vt.state = "done"
                self.current = self.main
                self.main.sem.release()

        vt.real = _real_threading.Thread(target=boot, name=f"v-{name}", daemon=True)
        vt.real.start()
        self.trace.append(("spawn", name))
        return vt

    # ---- preemptive mode: line-level scheduling points -------------------------
    def _tracer(self, frame, event, arg):
        code = frame.f_code
        if code in self.watch_codes:
            me = self.current
            self.frames.append(("enter", me.name, code.co_name))
            if self.on_frame is not None:
                self.on_frame("enter", me.name, code.co_name)
            if self.watch_preempt and code not in self.trace_codes:
                self.preempt_point(frame)

            def local(fr, ev, a, _code=code, _me=me):
                if ev == "line" and _code in self.trace_codes:
                    self.preempt_point(fr)
                elif ev == "return":
                    self.frames.append(("exit", _me.name, _code.co_name))
                return local

            return local
        if code in self.trace_codes:
            return self._local
        return None

    def _local(self, frame, event, arg):
        if event == "line":
            self.preempt_point(frame)
        return self._local

    def preempt_point(self, frame) -> None:
        me = self.current
        if me.is_main or me.abort or me.state != "running":
            return
        me.state = "runnable"
        me.point = (frame.f_code.co_name, frame.f_lineno)
        self._yield_to_main()
        me.state = "running"
        me.point = None

    def block_on_lock(self, lock: "ShimLock") -> None:
        me = self.current
        if me.is_main:
            raise RuntimeError("the driver thread would block on a lock held by a parked virtual thread")
        me.state = "blocked"
        me.wait_lock = lock
        self._yield_to_main()
        me.state = "running"
        me.wait_lock = None

    # ---- blocking points (called on virtual threads) -------------------------
    def block_on_event(self, ev: "ShimEvent", timeout: Optional[float]) -> bool:
        me = self.current
        if me.is_main:
            # the library never blocks the caller's thread on an Event; treat as
            # an immediate timeout in virtual time
            if timeout is not None:
                self.now += timeout
            return ev._flag
        me.state = "blocked"
        me.wait_event = ev
        me.deadline = None if timeout is None else self.now + timeout
        me.wake_reason = None
        self._yield_to_main()
        me.state = "running"
        me.wait_event = None
        me.deadline = None
        return me.wake_reason == "set"

    def sleep(self, seconds: float) -> None:
        me = self.current
        if me.is_main:
            self.now += seconds
            return
        me.state = "sleeping"
        me.deadline = self.now + seconds
        me.interval = seconds
        me.dirty = False  # it has just looked at the world
        self._yield_to_main()
        me.state = "running"
        me.deadline = None

    # ---- driver API (main thread only) ---------------------------------------
    def live(self) -> List[VThread]:
        return [t for t in self.threads if t.state != "done"]

    def enabled(self) -> List[VThread]:
        """Threads that could make a step now: runnable, sleeping, blocked with a
        deadline (timeout may elapse) or blocked on an event that is set."""
        out = []
        for t in self.live():
            if t.state == "sleeping":
                # pure polling loops: a poll during which nothing else changed
                # sees what the previous poll saw, so it is skipped (stutter)
                if t.dirty:
                    out.append(t)
            elif t.state == "runnable":
                out.append(t)
            elif t.state == "blocked":
                if t.wait_lock is not None:
                    if t.wait_lock._owner is None:
                        out.append(t)
                elif t.wait_event is not None and t.wait_event._flag:
                    out.append(t)
                elif t.deadline is not None:
                    out.append(t)
        out.sort(key=lambda t: (t.deadline if t.deadline is not None and not (t.wait_event and t.wait_event._flag) else self.now, t.seq))
        return out

    def touch(self, but: Optional[VThread] = None) -> None:
        """Something observable happened: polling sleepers must look again.
        A sleeper whose polls were skipped resumes at its first poll instant
        that is not in the past."""
        for t in self.threads:
            if t is but or t.state != "sleeping":
                continue
            t.dirty = True
            if t.deadline is not None and t.interval and t.deadline < self.now:
                import math

                k = math.ceil((self.now - t.deadline) / t.interval - 1e-12)
                t.deadline = t.deadline + k * t.interval

    def run(self, vt: VThread) -> None:
        """Let vt proceed until it blocks again or ends (cooperative step)."""
        assert self.current is self.main
        if vt.state == "done":
            return
        if vt.state == "blocked" and vt.wait_lock is not None:
            vt.wake_reason = "lock"
        elif vt.state == "blocked":
            if vt.wait_event is not None and vt.wait_event._flag:
                vt.wake_reason = "set"
            else:
                vt.wake_reason = "timeout"
                if vt.deadline is not None and vt.deadline > self.now:
                    self.now = vt.deadline
        elif vt.state == "sleeping":
            if vt.deadline is not None and vt.deadline > self.now:
                self.now = vt.deadline
        self.trace.append(("run", vt.name, vt.wake_reason, self.now))
        if self.on_wake is not None and vt.state in ("blocked", "sleeping"):
            self.on_wake(vt, vt.wake_reason if vt.state == "blocked" else "slept")
        was_sleeping = vt.state == "sleeping"
        self.current = vt
        vt.sem.release()
        self.main.sem.acquire()
        self.current = self.main
        # a poller that woke up, looked, and went straight back to sleep changed nothing: other pollers need not look again
        # (two pollers would otherwise keep each other 'dirty' forever)
        if not (was_sleeping and vt.state == "sleeping"):
            self.touch(but=vt)

    def run_all(self, max_steps: int = 2000, until: Optional[float] = None) -> int:
        """Default schedule: repeatedly run the earliest enabled thread."""
        n = 0
        while True:
            en = self.enabled()
            if until is not None:
                en = [t for t in en if t.state == "runnable" or (t.wait_event and t.wait_event._flag) or (t.deadline is not None and t.deadline <= until)]
            if not en:
                break
            if n >= max_steps:
                raise RuntimeError(f"thread horizon: still {len(en)} enabled threads after {max_steps} steps: {en}")
            self.run(en[0])
            n += 1
        if until is not None and until > self.now:
            self.now = until
        return n

    def shutdown(self) -> None:
        """Unwind every remaining virtual thread."""
        for t in list(self.threads):
            if t.state == "done":
                continue
            t.abort = True
            self.current = t
            t.sem.release()
            self.main.sem.acquire()
            self.current = self.main
        for t in self.threads:
            if t.real is not None:
                t.real.join(timeout=1.0)


_ACTIVE: Optional[Sched] = None


def active() -> Sched:
    assert _ACTIVE is not None, "no active scheduler"
    return _ACTIVE


class ShimEvent:
    def __init__(self) -> None:
        self._flag = False

    def is_set(self) -> bool:
        return self._flag

    isSet = is_set

    def set(self) -> None:
        self._flag = True

    def clear(self) -> None:
        self._flag = False

    def wait(self, timeout: Optional[float] = None) -> bool:
        if self._flag:
            return True
        return active().block_on_event(self, timeout)


class ShimLock:
    """threading.Lock / RLock for virtual threads: a contended acquire parks the thread (a scheduling point)
    instead of blocking the OS thread that holds the baton."""

    reentrant = False

    def __init__(self) -> None:
        self._owner: Optional[VThread] = None
        self._count = 0

    def acquire(self, blocking: bool = True, timeout: float = -1) -> bool:
        s = active()
        me = s.current
        if self.reentrant and self._owner is me:
            self._count += 1
            return True
        while self._owner is not None:
            if not blocking:
                return False
            s.block_on_lock(self)
            me = s.current
        self._owner = me
        self._count = 1
        return True

    def release(self) -> None:
        if self._owner is None:
            raise RuntimeError("release unlocked lock")
        self._count -= 1
        if self._count <= 0:
            self._owner = None
            self._count = 0

    def locked(self) -> bool:
        return self._owner is not None

    def __enter__(self) -> bool:
        return self.acquire()

    def __exit__(self, *exc: Any) -> None:
        self.release()


class ShimRLock(ShimLock):
    reentrant = True


class ShimThread:
    def __init__(self, group=None, target=None, name=None, args=(), kwargs=None, *, daemon=None):
        self._target = target
        self._args = args
        self._kwargs = kwargs or {}
        self.name = name or "thread"
        self.daemon = daemon
        self._vt: Optional[VThread] = None

    def start(self) -> None:
        tgt = self._target
        args, kwargs = self._args, self._kwargs
        self._vt = active().spawn(lambda: tgt(*args, **kwargs), self.name)

    def is_alive(self) -> bool:
        return self._vt is not None and self._vt.state != "done"

    def join(self, timeout: Optional[float] = None) -> None:
        # never used by the library on its own threads; the driver runs threads explicitly
        return None


class ShimThreading:
    """Stands in for the `threading` module inside sync_interpreter."""

    Thread = ShimThread
    Event = ShimEvent
    Lock = ShimLock
    RLock = ShimRLock
    current_thread = staticmethod(_real_threading.current_thread)
    get_ident = staticmethod(_real_threading.get_ident)

    @staticmethod
    def enumerate() -> list:
        return [t for t in active().threads if t.state != "done"]

    @staticmethod
    def active_count() -> int:
        return 1 + len([t for t in active().threads if t.state != "done"])


class ShimTime:
    """Stands in for the `time` module inside sync_interpreter."""

    @staticmethod
    def sleep(seconds: float) -> None:
        active().sleep(seconds)

    @staticmethod
    def time() -> float:
        return active().now

    @staticmethod
    def monotonic() -> float:
        return active().now

    perf_counter = monotonic


class Installed:
    """Context manager: patch the sync engine's module globals."""

    def __init__(self) -> None:
        self.sched = Sched()
        self._saved: dict = {}

    def __enter__(self) -> Sched:
        global _ACTIVE
        from xstate_statemachine import sync_interpreter as si

        self._saved = {"threading": si.threading, "time": si.time, "active": _ACTIVE}
        si.threading = ShimThreading  # type: ignore[assignment]
        si.time = ShimTime  # type: ignore[assignment]
        _ACTIVE = self.sched
        return self.sched

    def __exit__(self, *exc: Any) -> None:
        global _ACTIVE
        from xstate_statemachine import sync_interpreter as si

        try:
            self.sched.shutdown()
        finally:
            si.threading = self._saved["threading"]
            si.time = self._saved["time"]
            _ACTIVE = self._saved["active"]
