"""Virtual-time asyncio event loop driven by hand (explorer E2).

* no selector, no real clock: `time()` is a virtual clock that only moves when
  the driver releases a timer;
* ready handles are run in FIFO batches exactly like CPython's `_run_once`
  (the batch is the set of handles ready at the start of the iteration);
* timers are released one at a time by the driver, earliest deadline first,
  creation order breaking ties (what a strictly increasing real clock does).
"""
from __future__ import annotations

import asyncio
import contextlib
import itertools
import threading
from asyncio import events
from typing import Any, Coroutine, List, Optional


class Horizon(Exception):
    """The run was still busy at the iteration horizon (livelock/starvation)."""


class VLoop(asyncio.BaseEventLoop):
    def __init__(self) -> None:
        super().__init__()
        self._vnow = 0.0
        self._seq = itertools.count()
        self._vseq: dict = {}
        self.iterations = 0
        self.errors: List[dict] = []
        self.set_exception_handler(self._on_error)
        self._thread_id = None

    # -- BaseEventLoop plumbing ------------------------------------------
    def time(self) -> float:  # noqa: D401
        return self._vnow

    def _process_events(self, event_list: Any) -> None:  # pragma: no cover
        pass

    def _write_to_self(self) -> None:  # pragma: no cover
        pass

    def call_at(self, when, callback, *args, context=None):  # type: ignore[override]
        h = super().call_at(when, callback, *args, context=context)
        # TimerHandle has __slots__: keep creation order in a side table
        self._vseq[id(h)] = next(self._seq)
        return h

    def _on_error(self, loop: Any, context: dict) -> None:
        self.errors.append(context)

    # -- driver API ---------------------------------------------------------
    @contextlib.contextmanager
    def active(self):
        prev = events._get_running_loop()
        events._set_running_loop(self)
        self._thread_id = threading.get_ident()
        try:
            yield self
        finally:
            self._thread_id = None
            events._set_running_loop(prev)

    def ready_count(self) -> int:
        return sum(1 for h in self._ready if not h._cancelled)

    def live_timers(self) -> list:
        ts = [h for h in self._scheduled if not h._cancelled]
        ts.sort(key=lambda h: (h._when, self._vseq.get(id(h), 0)))
        return ts

    def run_batch(self) -> int:
        """One loop iteration: run the handles ready right now. Returns #run."""
        n = len(self._ready)
        ran = 0
        for _ in range(n):
            h = self._ready.popleft()
            if h._cancelled:
                continue
            h._run()
            ran += 1
        self.iterations += 1
        return ran

    def run_until_idle(self, max_iters: int = 10000) -> int:
        """Runs ready batches until nothing is ready (timers untouched)."""
        it = 0
        while self._ready:
            if it >= max_iters:
                raise Horizon(f"still busy after {max_iters} loop iterations")
            self.run_batch()
            it += 1
        return it

    def fire_next_timer(self) -> Optional[float]:
        """Moves the earliest live timer to the ready queue, advancing the
        virtual clock to its deadline. Returns the deadline or None."""
        ts = self.live_timers()
        if not ts:
            return None
        h = ts[0]
        self._scheduled.remove(h)
        self._vseq.pop(id(h), None)
        import heapq

        heapq.heapify(self._scheduled)
        h._scheduled = False
        if h._when > self._vnow:
            self._vnow = h._when
        self._ready.append(h)
        return h._when

    def fire(self, h: Any) -> None:
        """Moves one specific live timer to the ready queue."""
        import heapq

        for i, x in enumerate(self._scheduled):
            if x is h:
                del self._scheduled[i]
                break
        else:
            raise ValueError("timer handle is not scheduled")
        self._vseq.pop(id(h), None)
        heapq.heapify(self._scheduled)
        h._scheduled = False
        if h._when > self._vnow:
            self._vnow = h._when
        self._ready.append(h)

    def advance_to(self, t: float, max_iters: int = 10000) -> None:
        """Default schedule: fire every timer due up to virtual time t, in
        deadline order, running to idle after each."""
        self.run_until_idle(max_iters)
        while True:
            ts = self.live_timers()
            if not ts or ts[0]._when > t:
                break
            self.fire_next_timer()
            self.run_until_idle(max_iters)
        if t > self._vnow:
            self._vnow = t

    def run_coro(self, coro: Coroutine, max_iters: int = 10000) -> "asyncio.Task":
        task = self.create_task(coro)
        self.run_until_idle(max_iters)
        return task

    def all_tasks(self) -> set:
        return asyncio.all_tasks(self)

    def shutdown(self) -> None:
        """Cancel whatever is left and close, quietly."""
        try:
            with self.active():
                for t in list(asyncio.all_tasks(self)):
                    t.cancel()
                for _ in range(50):
                    if not self._ready:
                        break
                    self.run_batch()
        except BaseException:
            pass
        try:
            self._ready.clear()
            self._scheduled.clear()
            self.close()
        except BaseException:
            pass
