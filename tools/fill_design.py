#!/venv/bin/python
"""Regenerates the two generated tables of DESIGN.md section 9 (bounds reached, seeded changes) in place."""
import glob, json, re, subprocess
p = "/verif/DESIGN.md"
s = open(p).read()
tab = subprocess.run(["/verif/tools/asbuilt_table.py"], capture_output=True, text=True).stdout
tab = "\n".join(l for l in tab.splitlines() if l.startswith("|"))
rows = ["| Seed | breaks | needs | detected by |", "|---|---|---|---|"]
for f in sorted(glob.glob("/verif/seeded/*/meta.json")):
    m = json.load(open(f))
    name = f.split("/")[-2]
    rows.append(f"| {name} | {m['breaks']} | {m.get('needs', '')} | {m['detected_by']} |".replace("\n", " "))
s = re.sub(r"<!-- ASBUILT_TABLE -->.*?<!-- /ASBUILT_TABLE -->", lambda m: "<!-- ASBUILT_TABLE -->\n" + tab + "\n<!-- /ASBUILT_TABLE -->", s, flags=re.S)
s = re.sub(r"<!-- SEED_TABLE -->.*?<!-- /SEED_TABLE -->", lambda m: "<!-- SEED_TABLE -->\n" + "\n".join(rows) + "\n<!-- /SEED_TABLE -->", s, flags=re.S)
open(p, "w").write(s)
print("tables refreshed")
