#!/bin/bash
# Applies every seeded change in /verif/seeded to /repo in turn, runs the quick check(s) of its property, reverts.
# Prints one line per seed: CAUGHT / MISSED.  /repo must be clean.
cd "$(dirname "$0")/.."
cd /repo && git diff --quiet || { echo "repo dirty"; exit 9; }
cd /verif
for d in seeded/*/; do
  name=$(basename $d); prop=${name%%_*}
  git -C /repo apply "/verif/$d/patch.diff" 2>/dev/null || { echo "$name PATCH-DOES-NOT-APPLY"; continue; }
  out=$(./check $prop quick 2>&1); rc=$?
  git -C /repo checkout -- .
  if echo "$out" | grep -q "^VIOLATION"; then echo "$name CAUGHT $(echo "$out" | grep -m1 signature | cut -c1-120)"; else echo "$name MISSED (rc=$rc)"; fi
done
