#!/bin/bash
# Regression run over every kept seeded change (/verif/seeded/<id>_agent<k>/patch.diff).
# /repo itself is never touched: every seed is applied in a scratch worktree of /repo HEAD (outside /repo and /verif) and
# the checks import the library from there (PYTHONPATH=<worktree>/src overrides the editable install).  For each seed the
# quick check of its own property runs first; when that stays silent, the other checks its meta.json names under
# "detected_by" are tried.  Prints one line per seed: CAUGHT <check> <first signature> / MISSED / PATCH-DOES-NOT-APPLY.
# usage: tools/all_seeds.sh [slots] [name-filter]      (evidence files are rewritten by these runs: re-run the checks on
#                                                        /repo afterwards - tools/run_all.sh - before committing evidence)
cd "$(dirname "$0")/.."
SLOTS=${1:-3}; FILTER=${2:-}
TMP=$(mktemp -d /tmp/allseeds.XXXXXX)
one() {
  slot=$1; d=$2; name=$(basename $d); prop=${name%%_*}; wt=$TMP/wt$slot
  [ -d $wt ] || git -C /repo worktree add -q --detach $wt HEAD
  git -C $wt reset -q --hard HEAD; git -C $wt clean -fdq
  if ! git -C $wt apply "/verif/$d/patch.diff" 2>/dev/null && ! git -C $wt apply -3 "/verif/$d/patch.diff" 2>/dev/null; then
    git -C $wt reset -q --hard HEAD
    echo "$name PATCH-DOES-NOT-APPLY"; return
  fi
  others=$(/venv/bin/python -c "
import json,re,sys
try: m=json.load(open('/verif/$d/meta.json'))
except Exception: m={}
print(' '.join(dict.fromkeys(c for c in re.findall(r'C[0-9][0-9]', m.get('detected_by','')) if c!='$prop')))")
  for c in $prop $others; do
    out=$(PYTHONPATH=$wt/src ./check $c quick 2>&1)
    if echo "$out" | grep -q "^VIOLATION"; then echo "$name CAUGHT by $c $(echo "$out" | grep -m1 "^  signature" | cut -c1-110)"; return; fi
  done
  echo "$name MISSED (tried $prop $others)"
}
export -f one; export TMP
i=0
for d in seeded/*${FILTER}*/; do
  [ -f $d/patch.diff ] || continue
  echo "$((i % SLOTS)) $d"; i=$((i+1))
done > $TMP/jobs
for s in $(seq 0 $((SLOTS-1))); do
  ( grep "^$s " $TMP/jobs | while read slot d; do one $slot $d; done ) &
done
wait
for s in $(seq 0 $((SLOTS-1))); do [ -d $TMP/wt$s ] && git -C /repo worktree remove --force $TMP/wt$s; done
git -C /repo worktree prune; rm -rf $TMP
