#!/venv/bin/python
"""Prints the markdown table of section 9.1 of DESIGN.md from the props modules and the last evidence files."""
import importlib, json, os, sys
sys.path.insert(0, "/verif"); sys.path.insert(0, "/repo/src")
print("| Property | level | quick bound | thorough bound | last run: tier, executions, states, distinct, wall |")
print("|---|---|---|---|---|")
for i in range(1, 21):
    pid = f"C{i:02d}"
    m = importlib.import_module(f"mc.props.{pid.lower()}")
    ev = json.load(open(f"/verif/evidence/{pid}.json")) if os.path.exists(f"/verif/evidence/{pid}.json") else {}
    c = ev.get("coverage", {})
    last = f"{ev.get('tier', c.get('tier', '?'))}: exec={c.get('traces_validated_against_impl', c.get('executions', '?'))} states={c.get('states', '?')} distinct={c.get('distinct_nontrivial', '?')} wall={ev.get('wall_s', '?')}s"
    print(f"| {pid} | {m.LEVEL} | {m.BOUNDS.get('quick')} | {m.BOUNDS.get('thorough')} | {last} |")
