#!/bin/bash
# usage: try_seed.sh <seed-dir> <check ids...>   applies patch to /repo, runs quick checks, reverts
SEED=$1; shift
cd /repo && git diff --quiet || { echo "repo dirty"; exit 9; }
git -C /repo apply "$SEED/patch.diff" || { echo "patch does not apply"; exit 8; }
for c in "$@"; do
  out=$(cd /verif && ./check $c quick 2>&1 | grep -v conda)
  echo "$out" | grep -E "^VIOLATION|signature|^\[" | head -6 | cut -c1-260
done
# demo
d=$(ls $SEED/demo_*.py | head -1)
( cd /tmp && PYTHONPATH=/repo/src /venv/bin/python $d > /tmp/demo.out 2>&1; echo "demo exit=$? $(tail -1 /tmp/demo.out)" )
git -C /repo checkout -- . 
( cd /tmp && PYTHONPATH=/repo/src /venv/bin/python $d > /tmp/demo.out 2>&1; echo "demo(clean) exit=$? $(tail -1 /tmp/demo.out)" )
