#!/bin/bash
# Runs the repository test-suite in DIR (default /repo) in parallel; prints the summary line.
DIR=${1:-/repo}
cd "$DIR" && env -u XSTATE_STATEMACHINE_VERIF PYTHONPATH="$DIR/src" /venv/bin/python -m pytest -q -p no:cacheprovider --timeout=900 -n 16 2>&1 | tail -8
