#!/venv/bin/python
"""Generates /verif/MANIFEST.json from the table below (kept in one place)."""
import json, os, subprocess
VERIF = os.path.dirname(os.path.dirname(os.path.abspath(__file__)))
BASE = json.load(open("/root/.vp/BASELINE.json"))

CHECKS = {}
NOT_YET = {}

def check(pid, category, text, note, technique, engine, design_ref):
    CHECKS[pid] = dict(
        property_id=pid,
        quick_cmd=f"./check {pid} quick",
        thorough_cmd=f"./check {pid} thorough",
        evidence_file=f"/verif/evidence/{pid}.json",
        replay_cmd_template=f"./check {pid} --replay {{path}}",
        engine=engine,
        level_claimed=dict(category=category, text=text, design_ref=design_ref),
        level_note=note,
        technique=technique,
    )

exec(open(os.path.join(VERIF, "tools", "manifest_table.py")).read())

props = [json.loads(l)["id"] for l in open(os.path.join(VERIF, "properties.jsonl"))]
na = [dict(property_id=p, reason=NOT_YET.get(p, "check not built yet in this round; see DESIGN.md section 4 for the planned model-checking design")) for p in props if p not in CHECKS]
hook_commits = []
manifest = dict(
    version=1,
    setup_cmd="/venv/bin/python -m compileall -q /verif/mc /verif/check",
    hooks=dict(
        guard="XSTATE_STATEMACHINE_VERIF",
        enable="no source hook exists: checks import /repo/src directly (editable install) and replace module attributes (event loop, threading, time, uuid) from the harness; the guard variable is exported by ./check but read by nothing in /repo",
        baseline_off_cmd=BASE["cmd"].replace("--junitxml=<file>", "").strip(),
        source_commits=hook_commits,
        add_only=True,
    ),
    engines=ENGINES,
    checks=[CHECKS[p] for p in props if p in CHECKS],
    notes=NOTES,
    not_applicable=na,
)
json.dump(manifest, open(os.path.join(VERIF, "MANIFEST.json"), "w"), indent=1)
print("checks:", len(manifest["checks"]), "not_applicable:", len(na))
