ENGINES = [
    dict(name="E1-explicit-state", path="/verif/mc/e1.py", serves_properties=["C01"],
         kind_free_text="explicit-state BFS to closure over the real interpreters; state = replayed event history, deduplicated by canonical state"),
    dict(name="VLoop", path="/verif/mc/vloop.py", serves_properties=["C01"],
         kind_free_text="hand-driven virtual-time asyncio loop (BaseEventLoop subclass) hosting the real asyncio Interpreter"),
]
NOTES = ("Technique: model checking of the implementation itself (bounded exhaustive exploration of the real code); "
         "no TLA+/Promela model. Genuine defects are repaired by 'fix:' commits in /repo or listed in known_findings.json.")

check("C01", "model_checking",
      "All reachable states of every machine of an exhaustively generated family (all ordered state trees up to N non-root nodes, "
      "decorated with one transition per source/target pair) are enumerated on the real sync, async and pure engines; the legality "
      "invariant is evaluated at every observation point the property names.",
      "Trusted: the harness's canonical-state abstraction (configuration, history, status, context, output, error, actors), the VLoop "
      "reproduction of asyncio's ready-batch discipline, CPython 3.12. Machines larger than the family bound are not covered.",
      "explicit-state BFS to closure over generated machine family, invariant check on implementation states",
      "E1-explicit-state + VLoop", "DESIGN.md section 4 C01")
