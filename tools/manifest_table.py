ENGINES = [
    dict(name="E1-explicit-state", path="/verif/mc/e1.py", serves_properties=["C01"],
         kind_free_text="explicit-state BFS to closure over the real interpreters; state = replayed event history, deduplicated by canonical state"),
    dict(name="VLoop", path="/verif/mc/vloop.py", serves_properties=["C01"],
         kind_free_text="hand-driven virtual-time asyncio loop (BaseEventLoop subclass) hosting the real asyncio Interpreter"),
]
NOTES = ("Technique: model checking of the implementation itself (bounded exhaustive exploration of the real code); "
         "no TLA+/Promela model. Genuine defects are repaired by 'fix:' commits in /repo or listed in known_findings.json.")

check("C01", "model_checking",
      "All reachable states of every machine of an exhaustively generated family (all ordered state trees up to N non-root nodes, "
      "decorated with one transition per source/target pair) are enumerated on the real sync, async and pure engines; the legality "
      "invariant is evaluated at every observation point the property names.",
      "Trusted: the harness's canonical-state abstraction (configuration, history, status, context, output, error, actors), the VLoop "
      "reproduction of asyncio's ready-batch discipline, CPython 3.12. Machines larger than the family bound are not covered.",
      "explicit-state BFS to closure over generated machine family, invariant check on implementation states",
      "E1-explicit-state + VLoop", "DESIGN.md section 4 C01")

ENGINES[0]["serves_properties"] = ["C01", "C02", "C03", "C05", "C10", "C11"]
ENGINES[1]["serves_properties"] = ["C01", "C02", "C03", "C05", "C06", "C10", "C11", "C20"]
ENGINES.append(dict(name="finite-language-enumerator", path="/verif/mc/props", serves_properties=["C06", "C20", "C02"],
                    kind_free_text="complete enumeration of a bounded input language (guard formulas, descriptor key sets, guard valuations), each input run through the real send() on both engines and compared with a reference evaluator"))

TRUST = ("Trusted: Recorder stubs as the only user code, canonical-state abstraction, VLoop's reproduction of asyncio's ready-batch "
         "discipline, CPython 3.12; inputs outside the stated family bounds are not covered.")

check("C02", "model_checking",
      "Every guard valuation in {true,false,raise}^n of every SEL machine (ancestor chains, parallel regions with shared-ancestor and "
      "leaving handlers) in several configurations, and every (reachable state, event) pair of the TREE universal machines incl. unhandled "
      "events, is executed on both engines and compared with a reference nominator written from the statement; can() is compared too.",
      TRUST, "exhaustive enumeration of machine shapes x guard valuations x configurations + explicit-state BFS, reference-model comparison",
      "finite-language-enumerator + E1-explicit-state", "DESIGN.md section 4 C02")
check("C03", "model_checking",
      "Every transition executed anywhere in the BFS closure of the TREE universal machines and FOLLOW machines, on both interpreters, is "
      "judged by trace predicates: reference activity tracker (exactly-once accounting, never entered while active), exit<transition<entry, "
      "ancestor/descendant order, event identity on every marker, LCA frame condition.",
      TRUST, "explicit-state BFS to closure, trace-predicate oracle on every implementation step", "E1-explicit-state + VLoop",
      "DESIGN.md section 4 C03")
check("C05", "model_checking",
      "Differential model checking: BFS closure on the sync engine; every step is replayed on the async engine and threaded through the pure "
      "API and compared (configuration, context, status, output, ordered action trace with events); purity of the pure API is checked by "
      "fingerprinting machine and input snapshot and by the Recorder seeing no user action.",
      TRUST, "explicit-state BFS with differential (three-implementation) oracle", "E1-explicit-state + VLoop", "DESIGN.md section 4 C05")
check("C06", "model_checking",
      "The finite language of guard formulas up to the depth bound (and/or/not over named, parameterised, stateIn, raising, raising-params, missing atoms; all "
      "operand spellings; guard and cond; six positions incl. choose and enqueueActions.check) is enumerated completely through the real "
      "send() on both engines against two-valued evaluation.",
      TRUST, "complete enumeration of a bounded formula language against a reference evaluator", "finite-language-enumerator",
      "DESIGN.md section 4 C06")
check("C10", "model_checking",
      "BFS closure over every TREE tree with a final state, decorated with onDone handlers/outputs, on both engines; a reference counter "
      "derives from each final-state entry in the log which done.state events are due (strict XState isInFinalState) and compares count and "
      "data; top-level completion, output precedence and silence after done are checked in every reached state.",
      TRUST + " One recorded known finding (recursive done-ness) is filtered by signature.",
      "explicit-state BFS to closure with reference-counter oracle", "E1-explicit-state + VLoop", "DESIGN.md section 4 C10")
check("C11", "model_checking",
      "BFS closure over every TREE tree with a history node (with/without default target) on both engines; a reference memory maintained from "
      "exit markers predicts the configuration restored by each history transition taken while the parent is inactive, entry-once is checked, "
      "and a snapshot-restored twin must agree.",
      TRUST, "explicit-state BFS to closure with reference history memory + snapshot twin", "E1-explicit-state + VLoop",
      "DESIGN.md section 4 C11")
check("C20", "model_checking",
      "All descriptor key sets up to the size bound over a 23-key universe (plus internal-name keys), on a leaf, on (leaf,parent) pairs and on (leaf,parent,machine root) triples, with "
      "false-guard and null variants, x 25 event types, through the real send() on both engines against a reference matcher.",
      TRUST, "complete enumeration of bounded descriptor key sets against a reference matcher", "finite-language-enumerator",
      "DESIGN.md section 4 C20")

ENGINES[0]["serves_properties"] += ["C16"]
ENGINES.append(dict(name="E5-hash-order-permuter", path="/verif/mc/props/c16.py", serves_properties=["C16"],
                    kind_free_text="StateNode.__hash__ replaced by a rank table; all rank permutations enumerate every iteration order of every set of state nodes"))
ENGINES.append(dict(name="E3-thread-scheduler", path="/verif/mc/threads.py", serves_properties=["C08", "C09", "C14", "C15", "C04"],
                    kind_free_text="sync_interpreter.threading/time replaced by shims; library threads run as baton-passing virtual threads whose every step is chosen by the driver"))

check("C13", "model_checking",
      "Finite LOOP family: every (cycle kind, maxIterations, natural length below/at/above the bound/infinite, trigger, engine) case and every "
      "external burst case is executed under an action budget and judged: returns, natural end for short chains, ERROR log + legal "
      "configuration + responsiveness after a cut, nothing external discarded.",
      TRUST + " Termination is budget-based (Budget raised as KeyboardInterrupt subclass, loop-iteration horizon, SIGALRM backstop). One recorded known finding.",
      "exhaustive enumeration of a finite family of feedback-cycle machines under execution budgets", "finite-language-enumerator + VLoop",
      "DESIGN.md section 4 C13")
check("C16", "model_checking",
      "For every TREE machine with a parallel state or history node, every transition of the BFS closure is re-executed under every rank "
      "permutation of the state-node hash order (all iteration orders any heap layout could produce) on a rebuilt machine, and the complete "
      "trace must be byte-identical.",
      TRUST + " CPython set iteration = ascending hash for collision-free small tables; string-set order only sampled via PYTHONHASHSEED.",
      "explicit-state BFS x exhaustive hash-order permutation", "E1-explicit-state + E5-hash-order-permuter", "DESIGN.md section 4 C16")

ENGINES.append(dict(name="E2-schedule-explorer", path="/verif/mc/e2.py", serves_properties=["C08", "C09"],
                    kind_free_text="stateless depth-first enumeration of schedule choice prefixes (tied timers, ready-work-vs-timer order), optional deviation bound, replay self-test; timeline runners in /verif/mc/timeline.py drive VLoop / the thread shim"))

check("C08", "exploration",
      "Every environment script up to the length bound over a grid straddling the deadlines x every schedule choice (order of timers tied at an "
      "instant, expiry notification queued before/behind pending events, busy actions spanning a deadline) is executed on both engines under a "
      "virtual clock and judged on its timestamped log (fires when due, once per activation, never early, never after leave/stop).",
      TRUST + " Sync engine explored cooperatively (switches at shim calls; cancelled waiters and idle polling sleepers are reduced as stutter steps).",
      "stateless schedule exploration under a virtual clock (VLoop / thread shim), exhaustive over scripts x tie orders", "E2-schedule-explorer + VLoop + E3-thread-scheduler",
      "DESIGN.md section 4 C08")
check("C09", "exploration",
      "Service kinds (coroutine, callable, child machine) x outcomes x onError x entry variants x environment scripts around the completion time "
      "x schedule choices on both engines; per activation: started once with declared input, exactly one own outcome, stale results discarded, "
      "error status without onError, census of tasks/threads/children after every op.",
      TRUST + " Child-machine sources poll on a timer; their schedule tree is explored up to a deviation bound (reported as a cap).",
      "stateless schedule exploration under a virtual clock, exhaustive over scripts x tie orders (deviation-bounded for child machines)",
      "E2-schedule-explorer + VLoop + E3-thread-scheduler", "DESIGN.md section 4 C09")

check("C14", "model_checking",
      "BFS over OPERATION sequences (start, events, stop, virtual-time tick, snapshot/restore[/start]) to the depth bound with canonical-state "
      "deduplication on both engines; every step is checked against the lifecycle automaton of the statement and, after stop(), a census of "
      "asyncio tasks / timer handles / virtual threads / actors / registry, followed by virtual time passing with a silent log.",
      TRUST + " Depth-bounded (reported as a cap); TICK uses the default timer order.",
      "explicit-state BFS over lifecycle operation sequences with specification-automaton oracle and resource census",
      "E1-explicit-state + VLoop + E3-thread-scheduler", "DESIGN.md section 4 C14")

check("C12", "model_checking",
      "At EVERY reachable canonical state (= every crash point) of the TREE universal machines and of an actor machine, on both engines: "
      "restore(snapshot) is canonically equal, re-snapshot reproduces it, and for every event the original, the restored and the "
      "twice-restored interpreter step identically (one-step bisimulation over the closure); all single-point corruptions of snapshot texts "
      "(every prefix, deleted key, wrong JSON type, unknown state id) are enumerated.",
      TRUST, "explicit-state BFS with one-step bisimulation at every state + exhaustive single-point corruption enumeration",
      "E1-explicit-state + VLoop + E3-thread-scheduler", "DESIGN.md section 4 C12")
check("C15", "model_checking",
      "BFS over sequences of actor operations (spawn by id/systemId/anonymous/spawn_ action, sendTo by every addressing form, forwardTo, "
      "delayed send / id reuse / cancel / self-re-arming heartbeat, stopChild, grandchild, escalate, tick, stop) on both engines, joint state = "
      "(implementation, dictionary reference model, pending-timer census); after every step children map, registry, per-actor received "
      "sequence numbers, acknowledgements, warnings and liveness of removed actors are compared.",
      TRUST + " Depth-bounded (reported as a cap).",
      "explicit-state BFS over operation sequences against a dictionary reference model", "E1-explicit-state + VLoop + E3-thread-scheduler",
      "DESIGN.md section 4 C15")

ENGINES.append(dict(name="E4-fault-injector", path="/verif/mc/props/c07.py", serves_properties=["C07"],
                    kind_free_text="twin-run fault injector: the fault-free run enumerates user-code call sites, each site (and pair) is made to raise and the run is compared with the twin"))

check("C04", "exploration",
      "Every short operation sequence (sync) and every environment script x schedule choice (async) over a machine whose actions raise, re-send "
      "(send/send_events from inside actions and from entry actions during start), suspend, arm timers/services and have eventless follow-ups; "
      "judged on reception order, exactly-once, FIFO, per-macrostep event attribution, bracket markers never separated by another reception.",
      TRUST + " Sync thread slice: callers and the after-timer thread as virtual threads, every line-level interleaving inside send / "
      "send_events / _process_event_queue / _cancel_state_tasks with a bounded number of preemptions (bound in evidence).",
      "exhaustive enumeration of operation sequences / stateless schedule exploration under a virtual clock / preemption-bounded thread interleaving exploration", "E2-schedule-explorer + VLoop + E3-thread-scheduler + E3p-preemptive",
      "DESIGN.md section 4 C04")
check("C07", "fault_enumeration",
      "Every user-code call site of every step of the TREE(3) universal machines (two-marker lists) and of a built-in/nested-expansion machine is "
      "made to raise (singly, in pairs in the thorough tier) and compared with the fault-free twin; every plugin hook occurrence, the subscriber "
      "and emit listeners likewise; aborting faults at every position of the ABORT family with timer re-arm verified by virtual time.",
      TRUST + " Faults are ordinary Exceptions.", "exhaustive fault-position enumeration against a fault-free twin run",
      "E4-fault-injector + E1-explicit-state + VLoop + E3-thread-scheduler", "DESIGN.md section 4 C07")

ENGINES.append(dict(name="config-corpus-enumerator", path="/verif/mc/cfgtools.py", serves_properties=["C17", "C18", "C19"],
                    kind_free_text="corpus of machine configs (one per construct) with complete enumeration of rewrite sites / JSON positions / templates, compared by an independent deep fingerprint and product-BFS trace equivalence on the real sync engine under the thread shim"))

check("C17", "exploration",
      "Every config of the CFG family (one corpus machine per construct, alternative guard/transition spellings, hostile and colliding "
      "names carrying a canary, the Stately exports shipped with the test-suite) x 5 templates x async yes/no x 1/2 files is run through the "
      "real CLI main() in-process; exit!=0 must leave the output directory empty; exit 0 must give files that parse, import without "
      "audited side effects, never execute or parse config strings as code, build (pythonic) or bind (JSON templates) a machine equal to "
      "create_machine(json) under an independent deep fingerprint and BFS traces under both guard valuations, regenerate byte-identically "
      "and pass --check.",
      TRUST + " The generated runner's demo main() is not executed; black is called in-process instead of as a subprocess. One recorded "
      "known finding (JSON templates cannot bind names no function name maps to) is filtered by signature.",
      "exhaustive enumeration of config family x template x mode through the real CLI, differential oracle (deep fingerprint + BFS trace equivalence)",
      "config-corpus-enumerator + E3-thread-scheduler", "DESIGN.md section 4 C17")
check("C18", "model_checking",
      "Every applicable rewrite site of every spelling rule on every corpus machine and every target respelling on the TREE universal "
      "machines (singly, in pairs in the thorough tier, all at once) must leave deep fingerprint and traces unchanged; every JSON position "
      "of every corpus config x every wrong-typed value is driven through create_machine/start/events/can() and may only raise "
      "XStateMachineError subclasses or behave like the original.",
      TRUST, "complete enumeration of rewrite sites and single-point type corruptions, deep fingerprint + BFS trace equivalence oracle",
      "config-corpus-enumerator + E3-thread-scheduler", "DESIGN.md section 4 C18")
check("C19", "model_checking",
      "Every corpus machine reduced to what the Python APIs express x style {functional, builder, class} x variant is compared (deep "
      "fingerprint + traces) with create_machine(config); second builds from one definition after running the first to closure and after "
      "mutating every dict handed to State; the complete discovery alphabet of name shapes x role x provider kind x spelling is bound through "
      "create_machine and the callable actually invoked is identified.",
      TRUST, "complete enumeration of API style x variant x corpus and of the discovery name alphabet, differential oracle",
      "config-corpus-enumerator + E3-thread-scheduler", "DESIGN.md section 4 C19")

ENGINES.append(dict(name="E3p-preemptive", path="/verif/mc/preempt.py", serves_properties=["C04", "C08", "C09", "C14", "C15"],
                    kind_free_text="preemption-bounded stateless exploration of the sync engine's real threads: every producer is a virtual thread (baton passing), scheduling points are blocking calls, shim-lock acquisitions and every source line of whitelisted library functions (sys.settrace); all schedules with <= k preemptions are enumerated by choice prefixes"))
for _pid, _extra in (("C08", " Plus a sync thread slice: a caller leaving and re-entering the state against its after-timer threads, every line-level interleaving within the preemption bound."),
                     ("C09", " Plus a sync thread slice: the caller leaving / re-entering the invoking state at the instant its child machine finishes, against the runner and timer threads (deviation-bounded)."),
                     ("C14", " Plus a sync thread slice: stop() against an after-timer thread, a caller thread and a second stop(), every line-level interleaving within the preemption bound."),
                     ("C15", " Plus a sync thread slice: arm / re-arm / cancel of one send id against its delayed-send threads, every line-level interleaving within the preemption bound.")):
    CHECKS[_pid]["level_claimed"]["text"] += _extra
    CHECKS[_pid]["engine"] += " + E3p-preemptive"
    CHECKS[_pid]["technique"] += " + preemption-bounded thread interleaving exploration"
