#!/bin/bash
# Runs every registered check at the given tier (default quick), one after the other; prints each summary line.
# usage: tools/run_all.sh [quick|thorough] [ids...]
cd "$(dirname "$0")/.."
TIER=${1:-quick}; shift
IDS=${@:-$(/venv/bin/python -c "import json;print(' '.join(c['property_id'] for c in json.load(open('MANIFEST.json'))['checks']))")}
rc=0
for id in $IDS; do
  out=$(./check $id $TIER 2>&1); r=$?
  echo "$out" | grep -E "^\[$id|^VIOLATION" | cut -c1-260
  echo "$out" | grep -c "^KNOWN-FINDING" | sed "s/^/   known-finding lines: /"
  [ $r -ne 0 ] && { echo "   EXIT $r for $id"; rc=1; }
done
exit $rc
